#!/usr/bin/env python3
"""setup_cmd: build the hooked binary once (offline) and self-test the trusted encoders and TLC."""
import os
import subprocess
import sys

sys.path.insert(0, os.path.dirname(os.path.dirname(os.path.abspath(__file__))))
from lib import btc, run  # noqa: E402

btc.selftest()
run.build()
r = subprocess.run(['java', '-cp', run.TLA_JAR, 'tlc2.TLC', '-h'], capture_output=True, text=True)
assert 'TLC' in (r.stdout + r.stderr), 'TLC not runnable'
print('setup ok:', run.BIN)
