#!/usr/bin/env python3
"""Non-vacuity of the specification: each named deviation of the design (the as-is behaviour of the pinned code, or a
typical defect) makes TLC violate the invariant that carries the property.  Run: python3 tools/asis.py"""
import os
import subprocess
import sys

sys.path.insert(0, os.path.dirname(os.path.dirname(os.path.abspath(__file__))))
from lib import run  # noqa: E402

CASES = [
    ('MC_Range', 'MC_AsIs_ExclusiveUpperBound', 'ExactRange', {}, 'C02: loop bound excludes the tip / --end block'),
    ('MC_Fork', 'MC_AsIs_LastInsertWins', 'OnlyActive', {'FORKS': '__FORKS__'}, 'C04: one record per height, last key wins'),
    ('MC_Fault', 'MC_AsIs_RenameBeforeFlush', 'FinalNeverPartial', {}, 'C10: rename before the (error-swallowing) flush'),
    ('Par', 'MC_AsIs_UnorderedCollect', 'OrderPreserved', {}, 'C13: results collected in completion order'),
    ('MC_Wire', 'MC_AsIs_WitnessLoop', 'DecodeExact', {}, 'C01: witness stacks counted by the output count'),
    ('XorReader', 'MC_AsIs_KeyByBufferOffset', 'Plain', {}, 'C11: key indexed by the position inside the read call'),
    ('Merkle', 'MC_AsIs_NoOddDuplication', 'RootIsBitcoin', {}, 'C09: odd level does not duplicate its last hash'),
]


def main():
    forks = os.path.join(run.WORKROOT, 'asis-forks.ndjson')
    os.makedirs(run.WORKROOT, exist_ok=True)
    r = run.tlc('CoreIndex', 'CoreIndex_q', workers=8, timeout=600)
    import json
    seen = set()
    with open(forks, 'w') as f:
        for x in r.replay:
            x['recs'] = sorted(x['recs'], key=lambda y: y['id'])
            k = json.dumps(x, sort_keys=True)
            if k not in seen and len(seen) < 400:
                seen.add(k)
                f.write(k + '\n')
    bad = 0
    for mod, cfg, inv, env, what in CASES:
        env = {k: (forks if v == '__FORKS__' else v) for k, v in env.items()}
        res = run.tlc(mod, cfg, workers=8, timeout=900, env=env, allow_violation=True, coverage=False)
        ok = res.violated is not None
        print('%-32s %s  (%s)  -> %s' % (cfg, 'violates ' + str(res.violated) if ok else 'NO VIOLATION', what, 'ok' if ok else 'UNEXPECTED'))
        bad += not ok
    os.unlink(forks)
    sys.exit(1 if bad else 0)


if __name__ == '__main__':
    main()
