/* LD_PRELOAD shim: read()/write() on blk*.dat, xor.dat and the CSV output files transfer fewer bytes than asked for
 * (never zero), as POSIX allows for any descriptor and network / FUSE file systems and signals produce in practice.
 * A caller that loops (read_exact, write_all, BufReader/BufWriter) is unaffected; a caller that ignores the count is exposed.
 * RBP_SHORTIO=<seed> switches it on; descriptors are classified by their /proc/self/fd link on every call. */
#define _GNU_SOURCE
#include <dlfcn.h>
#include <stdint.h>
#include <stdio.h>
#include <stdlib.h>
#include <string.h>
#include <unistd.h>

static ssize_t (*real_read)(int, void *, size_t);
static ssize_t (*real_write)(int, const void *, size_t);
static uint64_t state;
static int enabled = -1;

static void init(void) {
    real_read = dlsym(RTLD_NEXT, "read");
    real_write = dlsym(RTLD_NEXT, "write");
    const char *s = getenv("RBP_SHORTIO");
    enabled = s && *s ? 1 : 0;
    state = enabled ? strtoull(s, NULL, 10) * 2654435761u + 88172645463325252ull : 0;
}

static uint64_t rnd(void) {
    uint64_t x = __atomic_load_n(&state, __ATOMIC_RELAXED);
    x ^= x << 13; x ^= x >> 7; x ^= x << 17;
    __atomic_store_n(&state, x, __ATOMIC_RELAXED);
    return x;
}

static int wanted(int fd) {
    char link[64], path[4096];
    if (fd < 3) return 0;
    snprintf(link, sizeof link, "/proc/self/fd/%d", fd);
    ssize_t n = readlink(link, path, sizeof path - 1);
    if (n <= 0) return 0;
    path[n] = 0;
    const char *base = strrchr(path, '/');
    base = base ? base + 1 : path;
    size_t bl = strlen(base);
    if (strncmp(base, "blk", 3) == 0) return 1;
    if (strcmp(base, "xor.dat") == 0 || strcmp(base, "k") == 0) return 1;
    if (bl > 4 && strcmp(base + bl - 4, ".tmp") == 0) return 1;
    if (bl > 4 && strcmp(base + bl - 4, ".csv") == 0) return 1;
    return 0;
}

static size_t shorten(size_t count) {
    if (count <= 1) return count;
    uint64_t r = rnd();
    if (r & 1) return count;                       /* every other call is served in full */
    if (r & 2) return 1 + (r >> 8) % count;        /* anything from 1 byte up */
    return count - 1 - (r >> 8) % (count < 9 ? count - 1 : 8);   /* just short of the request */
}

ssize_t read(int fd, void *buf, size_t count) {
    if (enabled < 0) init();
    if (enabled && wanted(fd)) count = shorten(count);
    return real_read(fd, buf, count);
}

ssize_t write(int fd, const void *buf, size_t count) {
    if (enabled < 0) init();
    if (enabled && wanted(fd)) count = shorten(count);
    return real_write(fd, buf, count);
}
