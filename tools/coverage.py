#!/usr/bin/env python3
"""Source coverage of /repo's src/ under the quick checks (not a check itself; a map of what the conformance legs reach).
Builds the hooked binary with `cargo +nightly` and -C instrument-coverage into .build/cov, runs `./check <id> --tier quick`
for the given ids (default: all) with profiles merged online, and prints per file the functions/regions never executed.
Usage: tools/coverage.py [C01 ...]   -> writes coverage/summary.txt and coverage/uncovered.txt"""
import glob
import json
import os
import subprocess
import sys

V = os.path.dirname(os.path.dirname(os.path.abspath(__file__)))
LLVM = os.path.expanduser('~/.rustup/toolchains/nightly-x86_64-unknown-linux-gnu/lib/rustlib/x86_64-unknown-linux-gnu/bin')


def main():
    ids = sys.argv[1:] or ['C%02d' % i for i in range(1, 18)]
    prof = os.path.join(V, '.build', 'cov', 'prof')
    os.makedirs(prof, exist_ok=True)
    for f in glob.glob(prof + '/*.profraw'):
        os.unlink(f)
    env = dict(os.environ, RBP_VERIF_COVERAGE='1')
    for i in ids:
        r = subprocess.run(['./check', i, '--tier', 'quick'], cwd=V, env=env, stdout=subprocess.PIPE, stderr=subprocess.STDOUT, text=True)
        print(r.stdout.strip().splitlines()[-1] if r.stdout.strip() else i + ': no output', flush=True)
    merged = os.path.join(prof, 'all.profdata')
    subprocess.run([LLVM + '/llvm-profdata', 'merge', '-sparse', '-o', merged] + glob.glob(prof + '/*.profraw'), check=True)
    binp = os.path.join(V, '.build', 'cov', 'debug', 'rusty-blockparser')
    out = os.path.join(V, 'coverage')
    os.makedirs(out, exist_ok=True)
    rep = subprocess.run([LLVM + '/llvm-cov', 'report', binp, '-instr-profile=' + merged, '--ignore-filename-regex=(\\.cargo|rustc|verif\\.rs)'],
                         stdout=subprocess.PIPE, text=True).stdout
    open(os.path.join(out, 'summary.txt'), 'w').write(rep)
    print(rep)
    ex = subprocess.run([LLVM + '/llvm-cov', 'export', binp, '-instr-profile=' + merged, '--ignore-filename-regex=(\\.cargo|rustc|verif\\.rs)',
                         '-format=text', '-skip-expansions'], stdout=subprocess.PIPE, text=True).stdout
    data = json.loads(ex)['data'][0]
    lines = []
    for f in data['files']:
        name = f['filename']
        src = open(name).read().splitlines() if os.path.exists(name) else []
        unc = set()
        for seg_a, seg_b in zip(f['segments'], f['segments'][1:] + [None]):
            line, col, count, has, is_entry = seg_a[:5]
            if has and count == 0:
                end = seg_b[0] if seg_b else line
                for ln in range(line, end + 1):
                    unc.add(ln)
        in_test = False
        for ln in sorted(unc):
            text = src[ln - 1] if ln - 1 < len(src) else ''
            lines.append('%s:%d: %s' % (os.path.relpath(name, '/repo'), ln, text))
    open(os.path.join(out, 'uncovered.txt'), 'w').write('\n'.join(lines) + '\n')
    print('uncovered lines:', len(lines), '->', os.path.join(out, 'uncovered.txt'))


if __name__ == '__main__':
    main()
