#!/usr/bin/env python3
"""Confirms a sub-agent's mutant in its scratch worktree (tests pass with it, demo fails with it and passes without it) and
copies it to /verif/seeded/<id>/.  Usage: tools/import_mutant.py <worktree> <seeded id> <property> [demo test filter]"""
import json
import os
import shutil
import subprocess
import sys

V = os.path.dirname(os.path.dirname(os.path.abspath(__file__)))


def sh(cmd, cwd):
    return subprocess.run(cmd, shell=True, cwd=cwd, stdout=subprocess.PIPE, stderr=subprocess.STDOUT, text=True)


def main():
    wt, sid, prop = sys.argv[1:4]
    filt = sys.argv[4] if len(sys.argv) > 4 else ''
    m = os.path.join(wt, 'mutant')
    env = 'CARGO_TARGET_DIR=%s/target' % wt
    log = {}
    sh('git checkout -- . && git clean -fdq -e mutant -e target', wt)
    assert sh('git apply mutant/patch.diff', wt).returncode == 0, 'patch does not apply'
    t = sh(env + ' cargo test --offline 2>&1 | grep "test result"', wt).stdout.strip()
    log['tests_with_change'] = t
    ok_tests = '41 passed; 0 failed' in t
    demo = os.path.join(m, 'demo.patch')
    res = {}
    if os.path.exists(demo):
        assert sh('git apply mutant/demo.patch', wt).returncode == 0, 'demo does not apply'
        r1 = sh(env + ' cargo test --offline %s 2>&1 | grep -E "test result|FAILED|failed" | head -5' % filt, wt).stdout.strip()
        sh('git apply -R mutant/patch.diff', wt)
        r2 = sh(env + ' cargo test --offline %s 2>&1 | grep -E "test result|FAILED|failed" | head -5' % filt, wt).stdout.strip()
        res = {'demo_with_change': r1, 'demo_without_change': r2}
        fails_with = 'FAILED' in r1 or ('failed' in r1 and ' 0 failed' not in r1)
        passes_without = 'FAILED' not in r2 and ' 0 failed' in r2
    else:
        fails_with = passes_without = None
    log.update(res)
    sh('git checkout -- . && git clean -fdq -e mutant -e target', wt)
    print(json.dumps(log, indent=1))
    print('tests pass with change:', ok_tests, '| demo fails with change:', fails_with, '| demo passes without:', passes_without)
    if ok_tests and fails_with and passes_without:
        d = os.path.join(V, 'seeded', sid)
        os.makedirs(d, exist_ok=True)
        for f in os.listdir(m):
            if os.path.isfile(os.path.join(m, f)):
                shutil.copy(os.path.join(m, f), os.path.join(d, f))
        readme = open(os.path.join(m, 'README.md')).read() if os.path.exists(os.path.join(m, 'README.md')) else ''
        json.dump({'id': sid, 'origin': 'independent sub-agent given only the property text and a scratch worktree', 'breaks': [prop],
                   'needs_to_manifest': readme[:1500], 'confirmed': log, 'detected_by_expected': [prop],
                   'demonstration': 'demo.patch (a #[test]); fails with patch.diff applied, passes without'},
                  open(os.path.join(d, 'meta.json'), 'w'), indent=1)
        print('imported to', d)
    else:
        print('NOT imported')
        sys.exit(1)


if __name__ == '__main__':
    main()
