#!/usr/bin/env python3
"""Binding demonstration: applies every /verif/seeded/<id>/patch.diff to /repo in turn, checks that the repository's own test
suite still passes with it (so the change is one the tests cannot see), runs the checks named in meta.json, expects a
VIOLATION from at least one of them, and undoes the patch.  Usage: tools/selftest.py [id ...] [--all-checks]
Never run concurrently with other checks (it edits /repo's working tree)."""
import json
import os
import subprocess
import sys
import time

V = os.path.dirname(os.path.dirname(os.path.abspath(__file__)))
REPO = os.environ.get('RBP_REPO', '/repo')      # a scratch clone can be used so that /repo stays untouched


def sh(cmd, **kw):
    return subprocess.run(cmd, shell=True, stdout=subprocess.PIPE, stderr=subprocess.STDOUT, text=True, **kw)


def main():
    args = [a for a in sys.argv[1:] if not a.startswith('--')]
    allchecks = '--all-checks' in sys.argv
    ids = args or sorted(d for d in os.listdir(os.path.join(V, 'seeded')) if os.path.isdir(os.path.join(V, 'seeded', d)))
    props = [json.loads(l)['id'] for l in open(os.path.join(V, 'properties.jsonl'))]
    if sh('git -C %s status --porcelain -- src Cargo.toml' % REPO).stdout.strip():
        print('refusing: /repo has uncommitted changes')
        sys.exit(2)
    rows = []
    for i in ids:
        d = os.path.join(V, 'seeded', i)
        meta = json.load(open(os.path.join(d, 'meta.json'))) if os.path.exists(os.path.join(d, 'meta.json')) else {}
        checks = props if allchecks else meta.get('detected_by_expected', meta.get('breaks', []))
        r = sh('git -C %s apply %s' % (REPO, os.path.join(d, 'patch.diff')))
        if r.returncode:
            # hook lines near the change moved since the patch was recorded: let git merge it
            r = sh('git -C %s apply --3way %s && git -C %s reset -q' % (REPO, os.path.join(d, 'patch.diff'), REPO))
            if r.returncode or '<<<<<<<' in sh('git -C %s diff' % REPO).stdout:
                sh('git -C %s reset -q; git -C %s checkout -- .' % (REPO, REPO))
                r.returncode = 1
        if r.returncode:
            rows.append((i, 'PATCH DOES NOT APPLY', r.stdout.strip()[:100]))
            continue
        try:
            t = sh('cd %s && cargo test --workspace --no-fail-fast --offline 2>&1 | grep "test result"' % REPO)
            tests_ok = ' 0 failed' in t.stdout and 'ok.' in t.stdout
            res = {}
            for c in checks:
                t0 = time.time()
                o = sh('cd %s && RBP_REPO=%s ./check %s --tier quick' % (V, REPO, c))
                res[c] = {0: 'held', 1: 'VIOLATION', 2: 'tool-error'}.get(o.returncode, str(o.returncode)) + ' %.0fs' % (time.time() - t0)
            rows.append((i, 'tests pass' if tests_ok else 'TESTS FAIL: ' + t.stdout.strip(), res))
            print('%-45s %-12s %s' % rows[-1], flush=True)
            out = os.path.join(V, 'seeded', 'RESULTS.json')
            prev = json.load(open(out)) if os.path.exists(out) else {}
            prev[i] = {'tests': rows[-1][1], 'checks': res}
            json.dump(prev, open(out, 'w'), indent=1, sort_keys=True)
        finally:
            sh('git -C %s checkout -- .' % REPO)
    # rebuild the unmodified tree so that later checks start from a clean binary
    sh('cd %s && RBP_REPO=%s ./check C16 --tier quick' % (V, REPO))
    bad = 0
    for i, t, res in rows:
        print('%-45s %-12s %s' % (i, t, res))
        if not isinstance(res, dict) or not any(v.startswith('VIOLATION') for v in res.values()):
            bad += 1
    out = os.path.join(V, 'seeded', 'RESULTS.json')
    prev = json.load(open(out)) if os.path.exists(out) else {}
    for i, t, res in rows:
        prev[i] = {'tests': t, 'checks': res}
    json.dump(prev, open(out, 'w'), indent=1, sort_keys=True)
    sys.exit(1 if bad else 0)


if __name__ == '__main__':
    main()
