#!/usr/bin/env python3
"""Regenerates /verif/MANIFEST.json from the table below (single place to edit)."""
import json
import os
import subprocess

V = os.path.dirname(os.path.dirname(os.path.abspath(__file__)))

HOOK_COMMITS = subprocess.run(['git', '-C', '/repo', 'log', '--format=%H %s'], capture_output=True, text=True).stdout
HOOK_COMMITS = [l.split()[0] for l in HOOK_COMMITS.splitlines() if ' verif hooks' in l]

TB = ('Trusted: TLC; the Python encoders/LevelDB writer in /verif/lib (self-tested with published vectors); the kernel. '
      'Bounds: see evidence file; beyond the bound only sampled.')

CHECKS = {
    'C02': dict(
        text='TLC checks ExactRange/DeliverNext/Names on BlockParser.tla exhaustively for every chain length up to the bound, every '
             'accepted --start/--end, all five callbacks; every terminal state is replayed against the real binary on a generated data '
             'directory (heights, names, slice equality); long random runs and sparse indexes at heights up to 2^21 are trace-validated '
             'against the same specification.',
        tech='TLA+ BlockParser.tla + TLC (MC_Range), spec->impl replay of every terminal state, impl->spec trace validation (Trace_Run)',
        ref='6/C02'),
}

CHECKS.update({
    'C03': dict(
        text='TLC enumerates every injective placement of the chain into blk files x slots (with foreign blocks, extra files, ranges) on '
             'BlockParser.tla (RightBlock) and the full VarInt round trip (VarInt.tla); every placement is concretised twice with different '
             'physical parameters (file numbers to 2^63, name padding, garbage, heights across VarInt widths) and the real csvdump output '
             'compared byte for byte with the reference; the real read_varint is replayed against the encoder up to 2^64-1; random layouts '
             'with hundreds of files are trace-validated (file, offset and hash of every fetch).',
        tech='TLA+ BlockParser.tla/VarInt.tla + TLC (MC_Layout), spec->impl replay on generated data directories, trace validation',
        ref='6/C03'),
    'C04': dict(
        text='CoreIndex.tla models the node that wrote the index (headers, data, activation, failed validation, reorganisation); TLC checks '
             'over every history in the bound that the parser\'s selection rule (ChainSel.tla) yields exactly the active chain, and MC_Fork '
             'runs the BlockParser machine over those indexes in 4 key orders (OnlyActive, Linked). Distinct indexes are concretised with '
             'real competitor blocks in two hash orders and run through the callbacks; traces bind select_active_chain to SelectChain.',
        tech='TLA+ CoreIndex.tla + ChainSel.tla + BlockParser.tla, TLC, replay of node histories as real indexes, trace validation',
        ref='6/C04'),
    'C09': dict(
        text='TLC checks VerifyIff on BlockParser.tla for every vector of per-block alterations (tx data, merkle field, prev field, foreign '
             'block) x start x verify on/off, and Merkle.tla ties the tree algorithm to Bitcoin\'s definition for 1..33 leaves; every '
             'terminal state is replayed with real bit flips, consistent chains of every tree shape must pass on all 8 coins (real genesis '
             'blocks for 4), bit-flip sweeps over tx bytes / merkle / prev fields must fail at the right height without final files.',
        tech='TLA+ BlockParser.tla (MC_Verify) + Merkle.tla, TLC, replay with real corruptions',
        ref='6/C09'),
    'C10': dict(
        text='TLC checks the output protocol (tmp create, buffered rows, flush, rename, exit) of BlockParser.tla under every fault in the '
             'bound: output limit at every row, unreadable block at every height, SIGKILL in every state (FinalNeverPartial, '
             'ExitZeroComplete, FailureLeavesNone, FaultFails, termination). The same faults are enumerated on the real binary (input '
             'faults x heights, RLIMIT_FSIZE sweeps incl. a multi-MB output, abort at every event boundary, SIGKILL with an observer) and '
             'judged by those invariants; aborted and complete runs are trace-validated (rename only with empty buffers).',
        tech='TLA+ BlockParser.tla (MC_Fault) + TLC incl. liveness, fault enumeration on the real binary, trace validation of crash prefixes',
        ref='6/C10'),
    'C11': dict(
        text='XorReader.tla models the three position-keeping layers (File, seek_bufread::BufReader, XorReader); TLC checks PosTrue and Plain '
             'over all call sequences x buffer capacities x key lengths; every sequence is replayed through the real reader stack at model '
             'scale and at the production 32 KiB buffer; every MC_Layout placement is run plain and XOR-ed end to end (all callbacks).',
        tech='TLA+ XorReader.tla + TLC, replay of all call sequences into the real XorReader, metamorphic end-to-end runs',
        ref='6/C11'),
    'C17': dict(
        text='OpenNeeded / OpenBound / Reopened are TLC-checked on BlockParser.tla for every placement x range; the set of open files logged '
             'by the real binary after every fetch is validated against the specification for every TLC layout and for random layouts with '
             'up to 400 files; runs over hundreds of disjoint files must succeed under RLIMIT_NOFILE = single-file minimum + 3.',
        tech='TLA+ BlockParser.tla (MC_Layout) + TLC, trace validation of open-file sets, descriptor-limit runs',
        ref='6/C17'),
})

CHECKS.update({
    'C07': dict(
        text='Utxo.tla builds every transaction history in the bound incrementally (inputs removed, outputs inserted one at a time as in '
             'callbacks/common.rs) and TLC checks after every step that the operational map equals the declarative Unspent(prefix); every '
             'complete history is turned into a real chain (forward references, duplicates, unknown outpoints, address-less outputs) and '
             'the unspent dump compared as a row set; long random histories are trace-validated event by event (Trace_Utxo: hit flag of '
             'every removal, every dumped row, nothing missing).',
        tech='TLA+ Utxo.tla + TLC, replay of complete histories as real chains, trace validation of spend/create/dump events',
        ref='6/C07'),
    'C08': dict(
        text='Same model and runs as C07: TLC checks Balances(utxo) = per-address sum of Unspent(prefix); the real balances dump is compared '
             'with the specification\'s map, with the reference and with the aggregation of the real unspent dump of the same directory; '
             'bal_row events are validated against Utxo.tla (each address once, exact sum, none missing).',
        tech='TLA+ Utxo.tla + TLC, replay of histories, relation between two whole-program runs, trace validation of bal_row events',
        ref='6/C08'),
    'C15': dict(
        text='Stats.tla accumulates block by block and transaction by transaction as simplestats does; TLC checks after every block that '
             'every accumulator equals the declarative figure of the prefix (sums, first-on-ties maxima, clamped gaps, fees above the '
             'era reward, per-type counts and first occurrences). Complete chains are realised (heights around the halvings, sizes by '
             'witness padding, timestamps in 1.4e9 s units) and the parsed report compared figure by figure; sums beyond 2^32 via '
             'timestamp gaps and the get_mean driver.',
        tech='TLA+ Stats.tla + TLC, replay of model chains with parsed report comparison, driver for get_mean',
        ref='6/C15'),
})

CHECKS.update({
    'C01': dict(
        text='Wire.tla specifies the on-disk format (Enc) and the recursive-descent decoder (Dec, which only knows what it reads); TLC checks '
             'DecodeExact, CountsRight, RoundTrip (bytes hashed into the txid = witness-stripped serialisation) and MarkerUnambiguous on '
             'every block shape of the universe. Every shape is concretised: the real read_block must perform exactly the primitive reads '
             'TLC derived and produce sha256d hashes of header / stripped tx; chains of the shapes are dumped by csvdump and compared byte for '
             'byte (4 files + completion totals), plus boundary sizes 0xfc/0xfd/0xffff/0x10000, counts of 253 and 65536, 8 coins, --verify.',
        tech='TLA+ Wire.tla + TLC, read-by-read conformance of the real decoder, byte-exact replay through csvdump',
        ref='6/C01'),
    'C05': dict(
        text='Script.tla gives type, address kind and payload item for every script of a bounded universe (all item sequences up to length 3, '
             'one-item neighbourhoods of every template, witness version x length, m-of-n shapes); TLC checks totality, mutual exclusion of '
             'the template rules, address-only-from-a-push, truncation and evaluates the verdicts. Every script is given random payloads and '
             'run through the real eval_from_bytes on bitcoin and testnet3: type, address string (rebuilt by trusted encoders, decoded back) '
             'and OP_RETURN text must match; the reference classifier validated on the universe then judges random bytes up to 100 KB.',
        tech='TLA+ Script.tla + TLC (verdict per script), replay into script::eval_from_bytes, end-to-end spot checks',
        ref='6/C05'),
    'C06': dict(
        text='Same specification (ForkVerdict: tokenizer machine over items - push rules, zero-length pushes, NOP class dropped, truncated '
             'push = unrecognised - then templates over tokens) replayed on the six fork coins with their published version bytes.',
        tech='TLA+ Script.tla + TLC, replay into script::eval_from_bytes on 6 coins',
        ref='6/C06'),
    'C12': dict(
        text='Wire.tla: EnterAuxPow iff the coin has an activation version and the header version reaches it; TLC checks AuxTransparent, '
             'NoAuxElsewhere and Misframed for versions below/at/above x section shapes x coins; real decoder read-by-read; csvdump with '
             '--verify over mixed chains with branch lengths up to 253 and negative controls on other coins.',
        tech='TLA+ Wire.tla + TLC, read-by-read conformance, replay through csvdump --verify',
        ref='6/C12'),
    'C16': dict(
        text='Payload item per script from Script.tla (TLC), chain order from BlockParser.tla; real chains mixing OP_RETURN outputs of every '
             'push form and payload class with all other script types are run through `opreturn` on 8 coins with ranges; stdout minus log '
             'lines compared byte for byte (scripts outside the statement are not judged).',
        tech='TLA+ Script.tla/BlockParser.tla + TLC, replay through the opreturn callback',
        ref='6/C16'),
})

CHECKS.update({
    'C13': dict(
        text='Par.tla models the two nested indexed parallel collects on a work-stealing pool and TLC checks OrderPreserved over every '
             'interleaving (the completion-order variant violates it); DumpDir.tla checks that pre-existing folder content cannot change '
             'the result. Real runs over thread counts 1..64 x seeded jitter x repetition must give byte-identical csvdump/opreturn output '
             '(equal to the reference), identical stats and row sets; recorded evaluation orders are validated against Par.tla and '
             'counted; dump-folder pre-states, blk/xor checksums and the index key/value content are compared across consecutive runs.',
        tech='TLA+ Par.tla/DumpDir.tla + TLC, metamorphic runs over schedules, trace validation of evaluation orders',
        ref='6/C13',
        note='The real schedule space is sampled and counted, not enumerated; exhaustive only in Par.tla. ' + TB),
    'C14': dict(
        text='Totality of classification/tokenisation over the script universe including every truncation form (Script.tla, TLC) and '
             'content-independence of the decoder (Wire.tla); hostile strings are evaluated in-process under catch_unwind on 8 coins and '
             'placed into scriptPubKey / scriptSig / witness items of real chains run through all 5 callbacks, whose complete output must '
             'equal the reference model of that chain with exit status 0.',
        tech='TLA+ Script.tla/Wire.tla + TLC, replay of hostile inputs in-process and end to end',
        ref='6/C14'),
})

NOT_YET = 'check under construction in this session; will be claimed once its TLC model and conformance leg run green'


def main():
    props = [json.loads(l)['id'] for l in open(os.path.join(V, 'properties.jsonl'))]
    checks = []
    for pid in props:
        if pid not in CHECKS:
            continue
        c = CHECKS[pid]
        checks.append({
            'property_id': pid,
            'quick_cmd': './check %s --tier quick' % pid,
            'thorough_cmd': './check %s --tier thorough' % pid,
            'evidence_file': 'evidence/%s.json' % pid,
            'replay_cmd_template': './check %s --replay {path}' % pid,
            'engine': 'tla',
            'level_claimed': {'category': c.get('cat', 'model_checking'), 'text': c['text'], 'design_ref': 'DESIGN.md ' + c['ref']},
            'level_note': c.get('note', TB),
            'technique': c['tech'],
        })
    m = {
        'version': 1,
        'setup_cmd': 'cd /verif && python3 tools/setup.py',
        'hooks': {
            'guard': 'rbp_verif',
            'enable': 'RUSTFLAGS="--cfg rbp_verif" CARGO_TARGET_DIR=/verif/.build/hooks cargo build --offline (run in /repo by every check)',
            'baseline_off_cmd': 'cd /repo && cargo test --workspace --no-fail-fast --offline',
            'source_commits': HOOK_COMMITS,
            'add_only': True,
        },
        'engines': [{'name': 'tla', 'path': 'spec/', 'serves_properties': sorted(CHECKS),
                     'kind_free_text': 'explicit TLA+ specification checked with TLC; conformance by replaying TLC behaviours into the '
                                       'real binary and by validating recorded implementation traces against the specification'}],
        'checks': checks,
        'not_applicable': [{'property_id': p, 'reason': NOT_YET} for p in props if p not in CHECKS],
        'notes': 'See DESIGN.md. ./check <id> exits 0 (held), 1 (VIOLATION line + replay file) or 2 (tool error).',
    }
    with open(os.path.join(V, 'MANIFEST.json'), 'w') as f:
        json.dump(m, f, indent=1)
    print('MANIFEST.json: %d checks, %d not claimed' % (len(checks), len(m['not_applicable'])))


if __name__ == '__main__':
    main()
