#!/usr/bin/env python3
"""Regenerates /verif/MANIFEST.json from the table below (single place to edit)."""
import json
import os
import subprocess

V = os.path.dirname(os.path.dirname(os.path.abspath(__file__)))

HOOK_COMMITS = subprocess.run(['git', '-C', '/repo', 'log', '--format=%H %s'], capture_output=True, text=True).stdout
HOOK_COMMITS = [l.split()[0] for l in HOOK_COMMITS.splitlines() if ' verif hooks' in l]

TB = ('Trusted: TLC; the Python encoders/LevelDB writer in /verif/lib (self-tested with published vectors); the kernel. '
      'Bounds: see evidence file; beyond the bound only sampled.')

CHECKS = {
    'C02': dict(
        text='TLC checks ExactRange/DeliverNext/Names on BlockParser.tla exhaustively for every chain length up to the bound, every '
             'accepted --start/--end, all five callbacks; every terminal state is replayed against the real binary on a generated data '
             'directory (heights, names, slice equality); long random runs and sparse indexes at heights up to 2^21 are trace-validated '
             'against the same specification.',
        tech='TLA+ BlockParser.tla + TLC (MC_Range), spec->impl replay of every terminal state, impl->spec trace validation (Trace_Run)',
        ref='6/C02'),
}

NOT_YET = 'check under construction in this session; will be claimed once its TLC model and conformance leg run green'


def main():
    props = [json.loads(l)['id'] for l in open(os.path.join(V, 'properties.jsonl'))]
    checks = []
    for pid in props:
        if pid not in CHECKS:
            continue
        c = CHECKS[pid]
        checks.append({
            'property_id': pid,
            'quick_cmd': './check %s --tier quick' % pid,
            'thorough_cmd': './check %s --tier thorough' % pid,
            'evidence_file': 'evidence/%s.json' % pid,
            'replay_cmd_template': './check %s --replay {path}' % pid,
            'engine': 'tla',
            'level_claimed': {'category': c.get('cat', 'model_checking'), 'text': c['text'], 'design_ref': 'DESIGN.md ' + c['ref']},
            'level_note': c.get('note', TB),
            'technique': c['tech'],
        })
    m = {
        'version': 1,
        'setup_cmd': 'cd /verif && python3 tools/setup.py',
        'hooks': {
            'guard': 'rbp_verif',
            'enable': 'RUSTFLAGS="--cfg rbp_verif" CARGO_TARGET_DIR=/verif/.build/hooks cargo build --offline (run in /repo by every check)',
            'baseline_off_cmd': 'cd /repo && cargo test --workspace --no-fail-fast --offline',
            'source_commits': HOOK_COMMITS,
            'add_only': True,
        },
        'engines': [{'name': 'tla', 'path': 'spec/', 'serves_properties': sorted(CHECKS),
                     'kind_free_text': 'explicit TLA+ specification checked with TLC; conformance by replaying TLC behaviours into the '
                                       'real binary and by validating recorded implementation traces against the specification'}],
        'checks': checks,
        'not_applicable': [{'property_id': p, 'reason': NOT_YET} for p in props if p not in CHECKS],
        'notes': 'See DESIGN.md. ./check <id> exits 0 (held), 1 (VIOLATION line + replay file) or 2 (tool error).',
    }
    with open(os.path.join(V, 'MANIFEST.json'), 'w') as f:
        json.dump(m, f, indent=1)
    print('MANIFEST.json: %d checks, %d not claimed' % (len(checks), len(m['not_applicable'])))


if __name__ == '__main__':
    main()
