#!/usr/bin/env python3
"""Demonstrates that the trace specifications are bound to what the hooks log: a recorded trace of the unchanged binary
is accepted; each single corruption of it (a changed field, a dropped event, two events swapped) is rejected."""
import json
import os
import sys

sys.path.insert(0, os.path.dirname(os.path.dirname(os.path.abspath(__file__))))
from lib import chains, datadir, run, tracecheck  # noqa: E402


def mutate(src, dst, fn):
    ev = [json.loads(l) for l in open(src) if l.strip()]
    ev = fn(ev)
    with open(dst, 'w') as f:
        for e in ev:
            f.write(json.dumps(e) + '\n')


def first(ev, name, k=0):
    return [i for i, e in enumerate(ev) if e['ev'] == name][k]


def main():
    run.build()
    bad = 0
    with run.Work('binding') as w:
        blocks = chains.std_chain(6)
        d = datadir.DataDir(w.sub('dd'))
        for h, b in enumerate(blocks):
            off = d.place(h // 2, b['raw'])
            d.record(b['hdr'], h, datadir.ACTIVE, 1, h // 2, off)
        d.write()
        tr = w.sub('trace')
        run.run_parser(d.path, 'csvdump', dump=w.mk('out'), trace=tr, skip='spend,create,eval')
        cases = [
            ('unchanged trace', lambda ev: ev, True),
            ('hash of a fetched block changed', lambda ev: [dict(e, hash='00' * 32) if i == first(ev, 'fetched', 2) else e for i, e in enumerate(ev)], False),
            ('a deliver event dropped', lambda ev: [e for i, e in enumerate(ev) if i != first(ev, 'deliver', 1)], False),
            ('two lookups swapped', lambda ev: swap(ev, first(ev, 'lookup', 1), first(ev, 'lookup', 2)), False),
            ('rename with 5 buffered bytes', lambda ev: [dict(e, buffered=5) if i == first(ev, 'rename') else e for i, e in enumerate(ev)], False),
            ('a file reported open after its last block', lambda ev: [dict(e, open=['0', '1', '2']) if i == first(ev, 'fetched', 5) else e for i, e in enumerate(ev)], False),
            ('retained record with another offset', lambda ev: [dict(e, off='9') if i == first(ev, 'idx_keep', 3) else e for i, e in enumerate(ev)], False),
            ('on_complete with the wrong height', lambda ev: [dict(e, h=4) if e['ev'] == 'on_complete' else e for e in ev], False),
            ('exit 0 without the renames', lambda ev: [e for e in ev if e['ev'] not in ('rename', 'renamed')], False),
        ]
        for what, fn, want in cases:
            p = w.sub('t')
            mutate(tr, p, fn)
            v = tracecheck.validate(p)
            ok = v['accepted'] == want
            bad += not ok
            print('%-45s %-9s %s' % (what, 'accepted' if v['accepted'] else 'rejected', 'ok' if ok else 'UNEXPECTED'))
        # UTXO trace
        tr2 = w.sub('trace')
        run.run_parser(d.path, 'unspentcsvdump', dump=w.mk('out'), trace=tr2,
                       skip='tmp_create,idx_rec,idx_keep,idx_done,files,on_start,lookup,fetched,verify,rename,renamed,eval')
        for what, fn, want in [
            ('utxo: unchanged trace', lambda ev: ev, True),
            ('utxo: hit flag flipped', lambda ev: [dict(e, hit=not e['hit']) if i == first(ev, 'spend', 2) else e for i, e in enumerate(ev)], False),
            ('utxo: a dumped row dropped', lambda ev: [e for i, e in enumerate(ev) if i != first(ev, 'dump_row', 1)], False),
            ('utxo: a dumped row with another value', lambda ev: [dict(e, value='7') if i == first(ev, 'dump_row', 1) else e for i, e in enumerate(ev)], False),
        ]:
            p = w.sub('t')
            mutate(tr2, p, fn)
            v = tracecheck.validate(p, 'Trace_Utxo')
            ok = v['accepted'] == want
            bad += not ok
            print('%-45s %-9s %s' % (what, 'accepted' if v['accepted'] else 'rejected', 'ok' if ok else 'UNEXPECTED'))
    sys.exit(1 if bad else 0)


def swap(ev, a, b):
    ev = list(ev)
    ev[a], ev[b] = ev[b], ev[a]
    return ev


if __name__ == '__main__':
    main()
