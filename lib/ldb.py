"""Minimal pure-Python LevelDB writer (log format only): independent of the code under test."""
import os
import struct


def _crc32c_table():
    t = []
    for i in range(256):
        c = i
        for _ in range(8):
            c = (c >> 1) ^ 0x82F63B78 if c & 1 else c >> 1
        t.append(c)
    return t


_T = _crc32c_table()


def crc32c(b, c=0):
    c ^= 0xffffffff
    for x in b:
        c = _T[(c ^ x) & 0xff] ^ (c >> 8)
    return c ^ 0xffffffff


def _mask(c):
    return (((c >> 15) | (c << 17)) + 0xa282ead8) & 0xffffffff


def _varint(n):
    o = b''
    while n >= 0x80:
        o += bytes([n & 0x7f | 0x80])
        n >>= 7
    return o + bytes([n])


def _log_records(payloads):
    out = bytearray()
    for p in payloads:
        first = True
        while True:
            left = 32768 - (len(out) % 32768)
            if left < 7:
                out += b'\0' * left
                left = 32768
            n = min(len(p), left - 7)
            frag, p = p[:n], p[n:]
            typ = (1 if first else 4) if not p else (2 if first else 3)
            out += struct.pack('<IHB', _mask(crc32c(bytes([typ]) + frag)), len(frag), typ) + frag
            first = False
            if not p:
                break
    return bytes(out)


def write_leveldb(path, kvs):
    """kvs: iterable of (key, value) bytes; written as one batch into a fresh database"""
    os.makedirs(path)
    kvs = list(kvs)
    parts = [struct.pack('<QI', 1, len(kvs))]
    for k, v in kvs:
        parts += [b'\x01', _varint(len(k)), k, _varint(len(v)), v]
    batch = b''.join(parts)
    with open(os.path.join(path, '000003.log'), 'wb') as f:
        f.write(_log_records([batch]))
    cmp = b'leveldb.BytewiseComparator'
    ve = (_varint(1) + _varint(len(cmp)) + cmp + _varint(2) + _varint(3) + _varint(9) + _varint(0)
          + _varint(3) + _varint(4) + _varint(4) + _varint(0))
    with open(os.path.join(path, 'MANIFEST-000002'), 'wb') as f:
        f.write(_log_records([ve]))
    with open(os.path.join(path, 'CURRENT'), 'w') as f:
        f.write('MANIFEST-000002\n')
