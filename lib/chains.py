"""Standard concrete chains and output parsers used by several checks."""
import re
import struct
from concurrent.futures import ThreadPoolExecutor

from . import btc, datadir


def addr_h160(h):
    return btc.hash160(b'addr%d' % h)


def std_txs(h, coin='bitcoin'):
    """one coinbase: a P2PKH output unique to the height and an OP_RETURN marker 'blk<h>'; every third block has the shape of a
    post-segwit block: BIP34 height push in the coinbase script, witness reserved value, witness commitment output"""
    cb = btc.coinbase(h, None, outs=[{'val': 50 * 10 ** 8, 'spk': btc.p2pkh(addr_h160(h))},
                                     {'val': 0, 'spk': b'\x6a' + btc.push(b'blk%d' % h)}])
    if h % 3 == 2:
        hb = h.to_bytes(max(1, (h.bit_length() + 8) // 8), 'little')
        cb['ins'][0]['sig'] = btc.push(hb) + b'/verif/' + hb
        cb['ins'][0]['wit'] = [b'\0' * 32]
        cb['outs'].append({'val': 0, 'spk': b'\x6a\x24\xaa\x21\xa9\xed' + btc.sha256d(b'commitment%d' % h)})
    return [cb]


def grind(prev, txs, t, ver, pred, start=0, bits=0x1d00ffff):
    """find a nonce such that pred(hash) holds"""
    mr = btc.merkle([btc.txid(x) for x in txs])
    for nonce in range(start, start + 200000):
        hdr = btc.header(ver, prev, mr, t, bits, nonce)
        if pred(btc.sha256d(hdr)):
            return datadir.mk_block(prev, txs, t=t, ver=ver, nonce=nonce, mr=mr, bits=bits)
    raise RuntimeError('grind failed')


def std_chain(n, coin='bitcoin', order=None, txs_fn=std_txs, h0=0, prev=b'\0' * 32, t0=1231006505):
    """n blocks h0..; order: None | 'asc' | 'desc' = order of the block hashes (= LevelDB key order) by height"""
    out = []
    for i in range(n):
        h = h0 + i
        txs = txs_fn(h, coin)
        if order is None:
            b = datadir.mk_block(prev, txs, t=t0 + 600 * h, nonce=h)
        else:
            slot = i if order == 'asc' else n - 1 - i
            lo, hi = slot * 256 // n, (slot + 1) * 256 // n
            b = grind(prev, txs, t0 + 600 * h, 1, lambda x: lo <= x[0] < hi)
        out.append(b)
        prev = b['hash']
    return out


LOG_RE = re.compile(rb'^\[\d\d:\d\d:\d\d\] (?:ERROR|WARN|INFO|DEBUG|TRACE) - [A-Za-z_:]+: .*\n', re.M)


def strip_log(stdout):
    """stdout bytes minus the logger's lines"""
    return LOG_RE.sub(b'', stdout)


def csv_col(data, col):
    # tolerant: the file may hold anything (that is what is being checked)
    out = []
    for ln in data.decode('utf-8', 'replace').splitlines():
        f = ln.split(';')
        out.append(f[col] if col < len(f) else '?')
    return out


def processed_upto(stdout):
    m = re.search(r'Done\. Processed blocks up to height (\d+) in', stdout)
    return int(m.group(1)) if m else None


def parse_stats(stdout):
    """parse the simplestats report -> dict"""
    s = {}
    def grab(pat, conv=int, key=None, flags=0):
        m = re.search(pat, stdout, flags)
        if m:
            s[key] = conv(m.group(1)) if m.lastindex == 1 else tuple(m.groups())
    grab(r'-> valid blocks:\s+(\d+)', key='blocks')
    grab(r'-> total transactions:\s+(\d+)', key='txs')
    grab(r'-> total tx inputs:\s+(\d+)', key='ins')
    grab(r'-> total tx outputs:\s+(\d+)', key='outs')
    grab(r'-> total tx fees:\s+[\d.]+ \((\d+) units\)', key='fees')
    grab(r'-> total volume:\s+[\d.]+ \((\d+) units\)', key='volume')
    m = re.search(r'-> biggest value tx:\s+[\d.]+ \((\d+) units\)\n\s+seen in block #(\d+), txid: ([0-9a-f]{64})', stdout)
    if m:
        s['big_value'] = (int(m.group(1)), int(m.group(2)), m.group(3))
    m = re.search(r'-> biggest size tx:\s+(\d+) bytes\n\s+seen in block #(\d+), txid: ([0-9a-f]{64})', stdout)
    if m:
        s['big_size'] = (int(m.group(1)), int(m.group(2)), m.group(3))
    for key, pat in (('avg_size_kib', r'avg block size:\s+([\d.]+|NaN|inf) KiB'), ('avg_gap_min', r'avg time between blocks:\s+([\d.]+|NaN|inf) \(minutes\)'),
                     ('avg_txs', r'avg txs per block:\s+([\d.]+|NaN|inf)'), ('avg_ins', r'avg inputs per tx:\s+([\d.]+|NaN|inf)'),
                     ('avg_outs', r'avg outputs per tx:\s+([\d.]+|NaN|inf)'), ('avg_value', r'avg value per output:\s+([\d.]+|NaN|inf)')):
        m = re.search(pat, stdout)
        if m:
            s[key] = m.group(1)
    types = {}
    for m in re.finditer(r'-> (\w+)(?:\(""\))?: (\d+) \(([\d.]+|NaN|inf)%\)\n\s+first seen in block #(\d+), txid: ([0-9a-f]{64})', stdout):
        types[m.group(1)] = (int(m.group(2)), m.group(3), int(m.group(4)), m.group(5))
    s['types'] = types
    return s


def pmap(fn, items, workers=16):
    with ThreadPoolExecutor(workers) as ex:
        return list(ex.map(fn, items))
