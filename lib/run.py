"""Build /repo's current working tree with hooks and run the real binary; TLC wrapper; evidence."""
import fcntl
import json
import os
import re
import resource
import shutil
import signal
import subprocess
import sys
import threading
import time

VERIF = os.path.dirname(os.path.dirname(os.path.abspath(__file__)))
REPO = os.environ.get('RBP_REPO', '/repo')
BUILD = os.path.join(VERIF, '.build')
# one cargo target directory per source tree: two trees sharing one would leave whichever binary was linked last
TARGET = os.path.join(BUILD, 'hooks' if REPO == '/repo' else 'hooks-' + __import__('hashlib').md5(REPO.encode()).hexdigest()[:8])
COVERAGE = os.environ.get('RBP_VERIF_COVERAGE') == '1'        # tools/coverage.py: source-coverage build (nightly, -C instrument-coverage)
if COVERAGE:
    TARGET = os.path.join(BUILD, 'cov')
    os.environ.setdefault('LLVM_PROFILE_FILE', os.path.join(BUILD, 'cov', 'prof', 'rbp-%8m.profraw'))
BIN = os.path.join(TARGET, 'debug', 'rusty-blockparser')
SHORTIO = os.path.join(BUILD, 'shortio.so')
BIN_RELEASE = os.path.join(TARGET, 'release', 'rusty-blockparser')      # what `cargo build --release` / `cargo install` ship
WORKROOT = os.path.join(VERIF, '.work')
SPEC = os.path.join(VERIF, 'spec')
TLA_JAR = '/opt/veriftools/tla/tla2tools.jar:/opt/veriftools/tla/CommunityModules-deps.jar'


class ToolError(Exception):
    """machinery failure (build, TLC, timeout of a tool) - never a violation"""


def seed():
    return int(os.environ.get('VERIF_SEED', '1'))


_built = False
_ambient = 0
_amb_lock = threading.Lock()


def build():
    """(re)build the hooked binary from /repo's current working tree; serialised by a lock file"""
    global _built
    if _built:
        return BIN
    os.makedirs(BUILD, exist_ok=True)
    with open(os.path.join(BUILD, 'lock'), 'w') as lk:
        fcntl.flock(lk, fcntl.LOCK_EX)
        env = dict(os.environ, CARGO_TARGET_DIR=TARGET, RUSTFLAGS='--cfg rbp_verif' + (' -C instrument-coverage' if COVERAGE else ''),
                   CARGO_NET_OFFLINE='true')
        env.pop('LLVM_PROFILE_FILE', None)
        r = subprocess.run(['cargo'] + (['+nightly'] if COVERAGE else []) + ['build', '--offline', '--quiet'], cwd=REPO, env=env,
                           stdout=subprocess.PIPE, stderr=subprocess.STDOUT, text=True, timeout=900)
        if r.returncode != 0:
            raise ToolError('cargo build failed:\n' + r.stdout[-4000:])
        if not COVERAGE and os.environ.get('RBP_VERIF_NO_AMBIENT') is None:
            # the release profile as well (optimised, no debug assertions, no overflow checks): the build profile is no input
            r = subprocess.run(['cargo', 'build', '--release', '--offline', '--quiet'], cwd=REPO, env=env,
                               stdout=subprocess.PIPE, stderr=subprocess.STDOUT, text=True, timeout=1800)
            if r.returncode != 0:
                raise ToolError('cargo build --release failed:\n' + r.stdout[-4000:])
        # private copy so that a concurrent rebuild cannot swap the file under a running check
        # LD_PRELOAD shim for short reads / writes (tools/shortio.c); without a C compiler the dimension is simply not varied
        so = os.path.join(BUILD, 'shortio.so')
        src = os.path.join(VERIF, 'tools', 'shortio.c')
        if not os.path.exists(so) or os.path.getmtime(so) < os.path.getmtime(src):
            for cc in ('gcc', 'cc', 'clang'):
                try:
                    if subprocess.run([cc, '-O1', '-shared', '-fPIC', '-o', so + '.new', src, '-ldl'], stdout=subprocess.PIPE,
                                      stderr=subprocess.STDOUT, timeout=120).returncode == 0:
                        os.replace(so + '.new', so)
                        break
                except (OSError, subprocess.SubprocessError):
                    pass
    _built = True
    return BIN


class Work:
    """scratch directory /verif/.work/<name>-<pid>, removed on exit"""

    def __init__(self, name, keep=False):
        self.dir = os.path.join(WORKROOT, '%s-%d' % (name, os.getpid()))
        self.keep = keep
        self.n = 0
        self._lock = threading.Lock()

    def __enter__(self):
        shutil.rmtree(self.dir, ignore_errors=True)
        os.makedirs(self.dir)
        return self

    def __exit__(self, *a):
        if not self.keep:
            shutil.rmtree(self.dir, ignore_errors=True)
        if getattr(self, 'shm', None):
            shutil.rmtree(self.shm, ignore_errors=True)

    def sub(self, prefix='d'):
        with self._lock:            # called from worker threads
            self.n += 1
            n = self.n
        # data directories and dump folders with a blank and a non-ASCII character in their name now and then (paths are not inputs)
        odd = ' \u00e9' if prefix in ('dd', 'out', 'cl') and n % 4 == 1 and os.environ.get('RBP_VERIF_NO_AMBIENT') is None else ''
        base = self.dir
        if prefix in ('dd', 'cl') and n % 5 == 3 and os.environ.get('RBP_VERIF_NO_AMBIENT') is None and os.access('/dev/shm', os.W_OK):
            # every fifth data directory lives on tmpfs: another file system, and one whose directory listing comes in reverse
            # creation order instead of hash order (the order in which read_dir yields the blk files is no input)
            self.shm = '/dev/shm/rbp-verif-%d' % os.getpid()
            os.makedirs(self.shm, exist_ok=True)
            base = self.shm
        p = os.path.join(base, '%s%d%s' % (prefix, n, odd))
        if prefix in ('dd', 'cl') and n % 9 == 4 and os.environ.get('RBP_VERIF_NO_AMBIENT') is None:
            # a data directory whose path ends like another coin's default folder: which coin is parsed is decided by -c alone
            p = os.path.join(p, ['.dogecoin/blocks', '.namecoin', '.litecoin/blocks', '.bitcoin/testnet3/blocks'][(n // 9) % 4])
            os.makedirs(os.path.dirname(p), exist_ok=True)
        return p

    def mk(self, prefix='d'):
        p = self.sub(prefix)
        # every sixth dump folder lives on another file system than the data directory and the system's temporary directory
        if prefix == 'out' and self.n % 6 == 2 and os.environ.get('RBP_VERIF_NO_AMBIENT') is None and os.access('/dev/shm', os.W_OK):
            self.shm = '/dev/shm/rbp-verif-%d' % os.getpid()
            p = os.path.join(self.shm, os.path.basename(p))
        os.makedirs(p)
        return p


class Res:
    def __init__(self, rc, out, err, files, events, dt, timed_out=False, listing=None):
        self.rc, self.out, self.err, self.files, self.events, self.dt = rc, out, err, files, events, dt
        self.timed_out = timed_out
        self.listing = listing if listing is not None else sorted(files)

    @property
    def stdout(self):
        return self.out.decode('utf-8', 'replace')

    @property
    def stderr(self):
        return self.err.decode('utf-8', 'replace')

    def panicked(self):
        return self.rc == 101 or b'panicked at' in self.err

    def brief(self):
        return {'rc': self.rc, 'stderr': self.stderr[-600:], 'stdout_tail': self.stdout[-400:],
                'files': {k: len(v) for k, v in self.files.items()}}


def read_events(path):
    ev = []
    if path and os.path.exists(path):
        with open(path, 'rb') as f:
            for line in f:
                line = line.strip()
                if line:
                    try:
                        ev.append(json.loads(line))
                    except ValueError:
                        pass   # torn last line after an abort
    return ev


def _run_on_pty(args, env, cwd, preexec, timeout, ids):
    """standard output is a terminal (raw mode, so that the line discipline translates nothing); stderr stays a pipe"""
    import pty
    import termios
    import tty
    master, slave = pty.openpty()
    try:
        tty.setraw(slave)
        attrs = termios.tcgetattr(slave)
        attrs[1] &= ~termios.OPOST
        termios.tcsetattr(slave, termios.TCSANOW, attrs)
        os.set_inheritable(slave, True)
        chunks = []

        def pump():
            while True:
                try:
                    b = os.read(master, 65536)
                except OSError:
                    break
                if not b:
                    break
                chunks.append(b)
        p = subprocess.Popen(args, env=env, cwd=cwd, stdout=slave, stderr=subprocess.PIPE, stdin=subprocess.DEVNULL, preexec_fn=preexec, **ids)
        os.close(slave)
        slave = -1
        t = threading.Thread(target=pump, daemon=True)
        t.start()
        try:
            _, err = p.communicate(timeout=timeout)
        except subprocess.TimeoutExpired:
            p.kill()
            _, err = p.communicate()
            t.join(5)
            raise subprocess.TimeoutExpired(args, timeout, output=b''.join(chunks), stderr=err)
        t.join(10)
        return p.returncode, b''.join(chunks), err
    finally:
        if slave >= 0:
            os.close(slave)
        os.close(master)


def _dump_stacks(pid, amb):
    """a run that does not finish: keep the stacks of all its threads for the post-mortem (best effort)"""
    try:
        r = subprocess.run(['gdb', '-batch', '-ex', 'thread apply all bt', '-p', str(pid)], stdout=subprocess.PIPE, stderr=subprocess.STDOUT,
                           timeout=60)
        with open(os.path.join(WORKROOT, 'hang-%d-%d.txt' % (os.getpid(), amb)), 'wb') as f:
            f.write(r.stdout)
    except (OSError, subprocess.SubprocessError):
        pass


NOBODY = 54321          # a uid/gid without passwd entry
_switch = None


def _can_switch_user():
    """only root can run the binary under another uid; probed once"""
    global _switch
    if _switch is None:
        _switch = False
        if os.geteuid() == 0:
            try:
                r = subprocess.run([BIN, '--version'], user=NOBODY, group=NOBODY, extra_groups=[], env={}, stdout=subprocess.PIPE,
                                   stderr=subprocess.PIPE, timeout=60)
                _switch = r.returncode == 0
            except (OSError, subprocess.SubprocessError):
                _switch = False
    return _switch


def _open_up(root):
    """make a scratch tree usable by any uid"""
    try:
        if os.path.isfile(root):
            os.chmod(root, 0o666)
            return
        for dp, dn, fn in os.walk(root):
            os.chmod(dp, 0o777)
            for f in fn:
                p = os.path.join(dp, f)
                if not os.path.islink(p):
                    if os.stat(p).st_mode & 0o777 != 0:          # (files deliberately unreadable stay so)
                        os.chmod(p, 0o666)
                else:
                    t = os.path.realpath(p)
                    if os.path.isfile(t) and t.startswith(WORKROOT):
                        os.chmod(t, 0o666)
    except OSError:
        pass


def run_parser(datadir, cb, dump=None, coin=None, start=None, end=None, verify=False, env=None, trace=None,
               fsize=None, nofile=None, timeout=60, threads=None, verbose=0, read_files=True, extra_args=(), mkdump=True,
               abort_at=None, skip=None, release=None, pty=None, aslimit=None, force_amb=None, pin=None, stdout_gone=False):
    """run the hooked binary; cb in csvdump|unspentcsvdump|balances|simplestats|opreturn.
    Ambient variation: options that must not influence any result (verbosity, size of the thread pool) are varied from run
    to run unless the caller fixes them, so that every check also exercises them."""
    global _ambient
    with _amb_lock:
        _ambient += 1
        amb = _ambient if force_amb is None else force_amb       # (force_amb: reproduce one particular ambient combination)
    if os.environ.get('RBP_VERIF_NO_AMBIENT') is None:
        if verbose == 0:
            verbose = (0, 0, 0, 1, 0, 0, 2)[amb % 7]
        if threads is None:
            threads = (None, None, 1, None, 3, None, 0)[amb % 7]      # (0 = rayon's default, spelled out)
    if pin is None:
        pin = os.environ.get('RBP_VERIF_NO_AMBIENT') is None and amb % 17 == 9 and threads is None
    bare = False
    if os.environ.get('RBP_VERIF_NO_AMBIENT') is None and amb % 11 == 5 and fsize is None and nofile is None and abort_at is None:
        bare = True            # the process environment is no input either: empty environment, uid without passwd entry
    cwd = None
    dd_arg, dump_arg = datadir, dump
    if os.environ.get('RBP_VERIF_NO_AMBIENT') is None and amb % 7 == 3 and dump and os.path.isabs(str(datadir)) and os.path.isabs(dump):
        # relative paths, resolved against the working directory
        cwd = os.path.commonpath([str(datadir), dump])
        if os.path.isdir(cwd) and cwd not in (str(datadir), dump):
            dd_arg, dump_arg = os.path.relpath(str(datadir), cwd), os.path.relpath(dump, cwd)
        else:
            cwd = None
    binary = BIN
    if release is None:
        release = os.environ.get('RBP_VERIF_NO_AMBIENT') is None and amb % 3 == 1 and abort_at is None
    if release and not COVERAGE and os.path.exists(BIN_RELEASE):
        binary = BIN_RELEASE
    args = [binary, '-d', dd_arg]
    if pin and shutil.which('taskset'):
        # the process may use a single CPU (cpuset, one-core container): the default pool has one thread
        args = ['taskset', '-c', str(sorted(os.sched_getaffinity(0))[amb % len(os.sched_getaffinity(0))])] + args
    if coin and not (coin == 'bitcoin' and amb % 2 == 0 and os.environ.get('RBP_VERIF_NO_AMBIENT') is None):
        args += ['-c', coin]         # (bitcoin is the default: half of the bitcoin runs leave the option out)
    if start is not None:
        args += ['-s', str(start)]
    if end is not None:
        args += ['-e', str(end)]
    if verify:
        args += ['--verify']
    args += ['-v'] * verbose
    args += list(extra_args)
    args += [cb]
    if cb in ('csvdump', 'unspentcsvdump', 'balances'):
        assert dump is not None
        if mkdump:
            os.makedirs(dump, exist_ok=True)
        args += [dump_arg]
    e = dict(os.environ)
    for k in list(e):
        if k.startswith('RBP_VERIF_'):
            del e[k]
    e['RUST_BACKTRACE'] = '0'
    if threads is not None:
        e['RAYON_NUM_THREADS'] = str(threads)
    if trace:
        # line 1 of a trace is the command the harness ran (the hooks append after it)
        with open(trace, 'w') as f:
            f.write(json.dumps({'ev': 'cmd', 'cb': cb, 'start': start or 0, 'end': -1 if end is None else end,
                                'verify': bool(verify), 'coin': coin or 'bitcoin'}) + '\n')
        e['RBP_VERIF_TRACE'] = trace
    if abort_at is not None:
        e['RBP_VERIF_ABORT_AT'] = str(abort_at)
    if skip:
        e['RBP_VERIF_SKIP'] = skip
    if bare:
        e = {k: v for k, v in e.items() if k.startswith('RBP_VERIF_') or k in ('RUST_BACKTRACE', 'RAYON_NUM_THREADS')}
    if os.environ.get('RBP_VERIF_NO_AMBIENT') is None and amb % 4 == 2 and os.path.exists(SHORTIO):
        # read() / write() on blk files, xor.dat and the CSV outputs transfer fewer bytes than asked for (POSIX allows it)
        e['LD_PRELOAD'] = SHORTIO
        e['RBP_SHORTIO'] = str(amb)
    if env:
        e.update(env)
    ids = {}
    if bare and _can_switch_user():
        for root in [datadir] + ([dump] if dump and os.path.isdir(dump) else []) + ([trace] if trace else []):
            _open_up(root)
        ids = {'user': NOBODY, 'group': NOBODY, 'extra_groups': []}

    def pre():
        if fsize is not None:
            signal.signal(signal.SIGXFSZ, signal.SIG_IGN)
            resource.setrlimit(resource.RLIMIT_FSIZE, (fsize, fsize))
        if nofile is not None:
            resource.setrlimit(resource.RLIMIT_NOFILE, (nofile, nofile))
        if aslimit is not None:
            resource.setrlimit(resource.RLIMIT_AS, (aslimit, aslimit))
        resource.setrlimit(resource.RLIMIT_CORE, (0, 0))
    t0 = time.time()
    for attempt in (0, 1):
        timed_out = False
        try:
            # preexec_fn forces fork(); without it Python can use vfork/posix_spawn, which matters when the parent is large
            need_pre = fsize is not None or nofile is not None or abort_at is not None or aslimit is not None
            to_file = None
            if stdout_gone:
                pty = False
            use_pty = pty if pty is not None else (os.environ.get('RBP_VERIF_NO_AMBIENT') is None and amb % 13 == 6 and fsize is None and nofile is None)
            if use_pty:
                rc, out, err = _run_on_pty(args, e, cwd, pre if need_pre else None, timeout, ids)
                break
            if os.environ.get('RBP_VERIF_NO_AMBIENT') is None and amb % 5 == 2 and fsize is None and not stdout_gone:
                # (not under a file size limit: the limit would apply to this file as well)
                # standard output is a regular file instead of a pipe (block buffering instead of none changes nothing)
                os.makedirs(WORKROOT, exist_ok=True)
                to_file = open(os.path.join(WORKROOT, 'stdout-%d-%d' % (os.getpid(), amb)), 'w+b')
            try:
                pr = subprocess.Popen(args, env=e, stdout=to_file or subprocess.PIPE, stderr=subprocess.PIPE, cwd=cwd,
                                      preexec_fn=pre if need_pre else None, **ids)
                if stdout_gone and not to_file:
                    # the reader of standard output has gone away (`... | head`): writes to it fail with EPIPE
                    pr.stdout.close()
                    pr.stdout = None
                try:
                    out, err = pr.communicate(timeout=timeout)
                    out = out or b''
                except subprocess.TimeoutExpired:
                    _dump_stacks(pr.pid, amb)
                    pr.kill()
                    o2, e2 = pr.communicate()
                    raise subprocess.TimeoutExpired(args, timeout, output=o2, stderr=e2)
                rc = pr.returncode
                if to_file:
                    to_file.seek(0)
                    out = to_file.read()
            finally:
                if to_file:
                    to_file.close()
                    os.unlink(to_file.name)
            break
        except subprocess.TimeoutExpired as ex:
            # a run that does not finish is reported only if it does not finish twice (a stalled box is not a verdict)
            rc, out, err, timed_out = -999, ex.stdout or b'', ex.stderr or b'', True
            try:
                with open(os.path.join(WORKROOT, 'timeouts.log'), 'a') as lf:
                    lf.write(json.dumps({'t': time.time(), 'attempt': attempt, 'args': args, 'amb': amb, 'bare': bare, 'pty': bool(use_pty),
                                         'env': {k: v for k, v in e.items() if k.startswith('RBP_') or k.startswith('RAYON')}}) + '\n')
            except OSError:
                pass
            if trace and attempt == 0:
                with open(trace) as f:
                    first = f.readline()
                with open(trace, 'w') as f:
                    f.write(first)
    dt = time.time() - t0
    files = {}
    listing = []
    if dump and os.path.isdir(dump):
        listing = sorted(os.listdir(dump))
        if read_files:
            for f in listing:
                p = os.path.join(dump, f)
                if os.path.isfile(p):
                    with open(p, 'rb') as fh:
                        files[f] = fh.read()
    return Res(rc, out, err, files, read_events(trace)[1:] if trace else [], dt, timed_out, listing)


def run_driver(mode, lines, timeout=600, env=None):
    """feed lines to a RBP_VERIF_MODE driver; returns list of parsed JSON lines (or raw strings)"""
    e = dict(os.environ, RBP_VERIF_MODE=mode, RUST_BACKTRACE='0')
    if env:
        e.update(env)
    data = ('\n'.join(lines) + '\n').encode()
    try:
        r = subprocess.run([BIN], input=data, env=e, stdout=subprocess.PIPE, stderr=subprocess.PIPE, timeout=timeout)
    except subprocess.TimeoutExpired:
        raise ToolError('driver %s timed out' % mode)
    outs = []
    for ln in r.stdout.decode('utf-8', 'replace').splitlines():
        try:
            outs.append(json.loads(ln))
        except ValueError:
            outs.append(ln)
    return r.returncode, outs, r.stderr.decode('utf-8', 'replace')


# ---------------------------------------------------------------------------------------------
# TLC

class TlcResult:
    def __init__(self):
        self.generated = self.distinct = self.depth = 0
        self.replay = []
        self.prints = []
        self.coverage = {}
        self.ok = False
        self.violated = None
        self.raw = ''
        self.wall = 0.0


_re_states = re.compile(r'(\d+) states generated, (\d+) distinct states found')
_re_depth = re.compile(r'The depth of the complete state graph search is (\d+)')
_re_cov = re.compile(r'^<(\w+) line (\d+), col (\d+) to line (\d+), col (\d+) of module (\w+)>: (\d+):(\d+)', re.M)


def tlc(module, cfg=None, workers=8, timeout=600, simulate=None, depth=None, env=None, coverage=True, name=None,
        heap='8g', deque=False, extra=(), work=None, allow_violation=False, seed_=None):
    """run TLC on spec/<module>.tla with spec/<cfg>.cfg; returns TlcResult; raises ToolError on tool failure"""
    cfg = cfg or module
    meta = os.path.join(work or WORKROOT, 'tlc-%s-%d' % (name or cfg, os.getpid()))
    shutil.rmtree(meta, ignore_errors=True)
    os.makedirs(meta)
    jopts = ['-XX:+UseParallelGC', '-Xmx' + heap, '-Xss1g' if deque else '-Xss64m', '-Djava.io.tmpdir=' + meta]
    if deque:
        jopts.append('-Dtlc2.tool.queue.IStateQueue=StateDeque')
    cmd = ['timeout', '-k', '15', str(timeout), 'java'] + jopts + ['-cp', TLA_JAR, 'tlc2.TLC', '-workers', str(workers),
                                                       '-metadir', meta, '-cleanup', '-noGenerateSpecTE',
                                                       '-config', cfg + '.cfg']
    if coverage and not simulate:
        cmd += ['-coverage', '1']
    if simulate:
        cmd += ['-simulate', 'num=%d' % simulate, '-depth', str(depth or 100), '-seed', str(seed_ if seed_ is not None else seed())]
    cmd += list(extra) + [module + '.tla']
    e = dict(os.environ)
    e.pop('JAVA_TOOL_OPTIONS', None)
    if env:
        e.update({k: str(v) for k, v in env.items()})
    t0 = time.time()
    r = subprocess.run(cmd, cwd=SPEC, env=e, stdout=subprocess.PIPE, stderr=subprocess.STDOUT, text=True)
    res = TlcResult()
    res.wall = time.time() - t0
    res.raw = r.stdout
    shutil.rmtree(meta, ignore_errors=True)
    for ln in r.stdout.splitlines():
        if ln.startswith('<<"REPLAY", '):
            body = ln[len('<<"REPLAY", '):-2]
            try:
                res.replay.append(json.loads(json.loads(body)))
            except ValueError:
                raise ToolError('unparsable REPLAY line: ' + ln[:200])
        elif ln.startswith('<<"') or ln.startswith('"'):
            res.prints.append(ln)
    m = None
    for m in _re_states.finditer(r.stdout):
        pass
    if m:
        res.generated, res.distinct = int(m.group(1)), int(m.group(2))
    m = _re_depth.search(r.stdout)
    if m:
        res.depth = int(m.group(1))
    for m in _re_cov.finditer(r.stdout):
        res.coverage[m.group(1)] = res.coverage.get(m.group(1), 0) + int(m.group(7))
    if r.returncode == 124:
        raise ToolError('TLC timed out after %ds on %s/%s' % (timeout, module, cfg))
    if 'Model checking completed. No error has been found.' in r.stdout or (simulate and r.returncode == 0):
        res.ok = True
    else:
        m = re.search(r'Invariant (\w+) is violated|Action property (\w+) is violated|Temporal properties were violated|'
                      r'The postcondition (\w+)|Assumption .* is false', r.stdout)
        if m:
            res.violated = next((g for g in m.groups() if g), 'property')
        if not allow_violation or not res.violated:
            if not res.violated:
                raise ToolError('TLC failed on %s/%s (rc=%d):\n%s' % (module, cfg, r.returncode, r.stdout[-3000:]))
    return res


# ---------------------------------------------------------------------------------------------
# evidence / verdicts

class Check:
    """collects what a check covered, violations and known findings; writes the evidence file"""

    def __init__(self, pid, tier, level='model_checking'):
        self.pid, self.tier, self.level = pid, tier, level
        self.t0 = time.time()
        self.cov = {'states': 0, 'transitions': 0, 'traces_validated_against_impl': 0, 'samples': [],
                    'evaluations': 0, 'distinct_nontrivial': 0, 'rule': '', 'tlc': [], 'exhaustive': False}
        self.assumptions = []
        self.violations = []
        self.known_hits = {}
        self.nontrivial = set()
        with open(os.path.join(VERIF, 'known_findings.json')) as f:
            self.known = [k for k in json.load(f)['findings'] if k['property'] == pid and k['state'] == 'known']

    def add_tlc(self, res, label):
        self.cov['states'] += res.distinct
        self.cov['transitions'] += res.generated
        self.cov['tlc'].append({'model': label, 'distinct_states': res.distinct, 'states_generated': res.generated,
                                'depth': res.depth, 'wall_s': round(res.wall, 1),
                                'actions_covered': {k: v for k, v in sorted(res.coverage.items()) if v > 0},
                                'replay_lines': len(res.replay)})

    def require_actions(self, res, actions, label):
        missing = [a for a in actions if res.coverage.get(a, 0) == 0]
        if missing:
            raise ToolError('vacuous model %s: actions never taken: %s' % (label, missing))

    def sample(self, s, limit=6):
        if len(self.cov['samples']) < limit:
            self.cov['samples'].append(s)

    def evals(self, n=1):
        self.cov['evaluations'] += n

    def distinct(self, key):
        self.nontrivial.add(key)

    def traces(self, n=1):
        self.cov['traces_validated_against_impl'] += n

    def violation(self, what, record):
        """record: JSON-able dict with scenario/command/expected/observed; matched against known findings"""
        tags = record.get('tags', [])
        for k in self.known:
            if k['match'] in tags:
                self.known_hits.setdefault(k['match'], [k, 0])[1] += 1
                return False
        self.violations.append((what, record))
        return True

    def finish(self):
        os.makedirs(os.path.join(VERIF, 'evidence'), exist_ok=True)
        self.cov['distinct_nontrivial'] = len(self.nontrivial)
        for m, (k, n) in self.known_hits.items():
            print('KNOWN-FINDING: property=%s %s (%d occurrences this run)' % (self.pid, k['what'], n))
        rc = 0
        if self.violations:
            rdir = os.path.join(VERIF, 'replays')
            os.makedirs(rdir, exist_ok=True)
            for i, (what, rec) in enumerate(self.violations[:20]):
                p = os.path.join(rdir, '%s-%s-%d.json' % (self.pid, self.tier, i))
                with open(p, 'w') as f:
                    json.dump({'property': self.pid, 'what': what, 'record': rec}, f, indent=1, default=_js)
                print('VIOLATION property=%s replay=%s' % (self.pid, p))
                print('  ' + what)
            rc = 1
        ev = {'property_id': self.pid, 'tier': self.tier, 'seed': seed(), 'level': self.level, 'coverage': self.cov,
              'assumptions': self.assumptions, 'wall_s': round(time.time() - self.t0, 2),
              'violations': len(self.violations),
              'known_findings_hit': {m: n for m, (k, n) in self.known_hits.items()}}
        with open(os.path.join(VERIF, 'evidence', self.pid + '.json'), 'w') as f:
            json.dump(ev, f, indent=1, default=_js)
        return rc


def _js(o):
    if isinstance(o, (bytes, bytearray)):
        return o.hex()
    if isinstance(o, set):
        return sorted(o)
    return str(o)
