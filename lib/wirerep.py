"""Concretisation of Wire.tla block shapes and replay against the real decoder."""
import random
import struct

from . import btc, datadir

REP = {'z': 0, 's': 2, 'm': 253, 'l': 65536}
THRESH = {'namecoin': 0x10101, 'dogecoin': 0x620102}


def header_version(coin, cls, rng):
    t = THRESH.get(coin)
    if t is None:
        # coins without AuxPoW: any version, including ones above the other coins' thresholds
        return rng.choice([1, 2, 0x20000000, 0x620102, 0x10101, 0x7fffffff, 0x00620104, 0xffffffff, 0xffffffff, 0xfffffffe, 0x80000000]) if cls else rng.choice([1, 4])
    if cls == 0:
        return rng.choice([1, 2, t - 1])
    if cls == 1:
        return t
    # "at or above the activation version" is the whole range up to 2^32-1, whatever the other version bits say
    return rng.choice([t + 1, t | 0x100000, 0x7fffffff, t + 0x10000, 0xffffffff, (t | 0xffff) + 1, (t & ~0x1ff) + 0x200,
                       rng.randrange(t + 1, 2 ** 32), rng.randrange(t + 1, 2 ** 32), rng.randrange(t + 1, t + 0x1000)])


def spk_of_len(n, rng):
    """a script of exactly n bytes: a standard template when one has that length (so that address columns are exercised)"""
    if n == 25:
        return btc.p2pkh(rng.randbytes(20))
    if n == 23:
        return btc.p2sh(rng.randbytes(20))
    if n == 35:
        return btc.p2pk(b'\x03' + rng.randbytes(32))
    if n == 22:
        return b'\x00\x14' + rng.randbytes(20)
    return rng.randbytes(n)


# sizes used when shapes are dumped through csvdump: the small class becomes a template length
CHAIN_SIZES = [{'z': 0, 's': 25, 'm': 253, 'l': 65536}, {'z': 0, 's': 23, 'm': 300, 'l': 65536}, {'z': 0, 's': 35, 'm': 253, 'l': 65536}]


def mk_tx(shape, rng, sizes=REP, cb=False, idx=0):
    ins = []
    for k, c in enumerate(shape['ins']):
        i = {'txid': b'\0' * 32 if cb else rng.randbytes(32), 'idx': 0xffffffff if cb else rng.randrange(2 ** 32),
             'sig': rng.randbytes(sizes[c]), 'seq': rng.choice([0, 0xffffffff, 0xfffffffe, rng.randrange(2 ** 32)])}
        if shape['seg']:
            i['wit'] = [rng.randbytes(sizes[x]) for x in shape['wit'][k]]
        ins.append(i)
    outs = [{'val': rng.choice([0, 1, 2 ** 31, 2 ** 32 - 1, 2 ** 63, 2 ** 64 - 1, rng.randrange(2 ** 64)]), 'spk': spk_of_len(sizes[c], rng)}
            for c in shape['outs']]
    return {'ver': rng.choice([1, 2, 0, 2 ** 31, 2 ** 32 - 1]), 'ins': ins, 'outs': outs,
            'lock': rng.choice([0, idx, 2 ** 32 - 1, rng.randrange(2 ** 32)]), 'segwit': shape['seg']}


def mk_aux(a, rng, sizes=REP):
    cb = mk_tx(a['cb'], rng, sizes)
    # the parent coinbase is opaque to a parser: its script may hold the merged-mining tag (fa be 6d 6d + root + size + nonce)
    # complete, cut short, or at the very end
    if cb['ins'] and len(cb['ins'][0]['sig']) >= 4 and rng.random() < 0.6:
        sg = bytearray(cb['ins'][0]['sig'])
        tail = rng.choice([0, 1, 10, 39, 40, 44])
        pos = max(0, len(sg) - 4 - tail)
        sg[pos:pos + 4] = b'\xfa\xbe\x6d\x6d'
        cb['ins'][0]['sig'] = bytes(sg)
    return btc.auxpow(cb, rng.randbytes(32), [rng.randbytes(32) for _ in range(a['b1'])], rng.randrange(2 ** 32),
                      [rng.randbytes(32) for _ in range(a['b2'])], rng.randrange(2 ** 32),
                      # the parent header is opaque as well: versions of real parents (1, 2, BIP9), of the merged-mined coins themselves
                      # (chain id 1 = namecoin, 0x62 = dogecoin in bits 16..31, AuxPoW flag 0x100) and arbitrary ones
                      btc.header(rng.choice([1, 2, 0x20000000, 0x00010101, 0x00620102, 0x00010100, 0x00620004, 0x00010000 | rng.randrange(2 ** 16),
                                             0x00620000 | rng.randrange(2 ** 16), rng.randrange(2 ** 32)]),
                                 rng.randbytes(32), rng.randbytes(32), rng.randrange(2 ** 32), 0x1d00ffff, rng.randrange(2 ** 32)))


def mk_block(rec, rng, prev=None, sizes=REP, t=None):
    """rec: REPLAY record of MC_Wire -> block dict (datadir.mk_block form)"""
    b = rec['block']
    coin = rec['coin']
    txs = [mk_tx(s, rng, sizes, idx=k) for k, s in enumerate(b['txs'])]
    aux = mk_aux(b['aux'], rng, sizes) if b['aux']['b1'] >= 0 else None
    ver = header_version(coin, b['ver'], rng)
    return datadir.mk_block(prev if prev is not None else rng.randbytes(32), txs, t=t or rng.randrange(1, 2 ** 32), ver=ver,
                            bits=rng.randrange(2 ** 32), nonce=rng.randrange(2 ** 32), aux=aux)
