"""Reference renderings (encoder side): what the outputs must look like for a given concrete chain.

The script classifier below is the byte-level concretisation of spec/Script.tla's rules; the check
for C05/C06 validates it against the TLC-evaluated verdicts on the whole bounded domain, so that
its use as an oracle in end-to-end runs rests on the specification.
"""
import struct
from fractions import Fraction

from . import btc

# ---------------------------------------------------------------------------------------------
# script tokenizer (Bitcoin push rules)


def tokenize(spk):
    """-> list of ('op', byte) | ('push', opcode, data) or None if a push runs past the end"""
    toks = []
    i, n = 0, len(spk)
    while i < n:
        op = spk[i]
        i += 1
        if op <= 75:
            ln = op
        elif op == 0x4c:
            if i + 1 > n:
                return None
            ln = spk[i]
            i += 1
        elif op == 0x4d:
            if i + 2 > n:
                return None
            ln = struct.unpack('<H', spk[i:i + 2])[0]
            i += 2
        elif op == 0x4e:
            if i + 4 > n:
                return None
            ln = struct.unpack('<I', spk[i:i + 4])[0]
            i += 4
        else:
            toks.append(('op', op))
            continue
        if i + ln > n:
            return None
        toks.append(('push', op, spk[i:i + ln]))
        i += ln
    return toks


NOPS = {0x61} | set(range(0xb0, 0xba))
RETURN_OPS = {0x6a, 0x50, 0x62, 0x89, 0x8a} | set(range(0xba, 0x100)) - {0xff}
ILLEGAL_OPS = {0x65, 0x66, 0xff, 0x7e, 0x7f, 0x80, 0x81, 0x83, 0x84, 0x85, 0x86, 0x8d, 0x8e, 0x95, 0x96, 0x97, 0x98, 0x99}


def op_return_payload_btc(spk):
    """C16 reference for bitcoin/testnet3: OP_RETURN + exactly one push and nothing else -> payload bytes;
    None when the script is OP_RETURN followed by anything else (outside the statement)"""
    t = tokenize(spk[1:])
    if t is None or len(t) != 1 or t[0][0] != 'push':
        return None
    return t[0][2]


def classify_btc(spk, coin):
    """-> (pattern, address or None, extra) ; extra = OP_RETURN payload bytes (or None if not judged)"""
    hrp = btc.COINS[coin]['hrp']
    pkh_ver = btc.COINS[coin]['ver']
    sh_ver = btc.COINS[coin]['p2sh']
    n = len(spk)
    if n and spk[0] == 0x6a:
        return 'OpReturn', None, op_return_payload_btc(spk)
    if n and (spk[0] in RETURN_OPS or spk[0] in ILLEGAL_OPS):
        return 'Unspendable', None, None
    if (n == 67 and spk[0] == 0x41 and spk[66] == 0xac) or (n == 35 and spk[0] == 0x21 and spk[34] == 0xac):
        return 'Pay2PublicKey', btc.b58check(bytes([pkh_ver]) + btc.hash160(spk[1:-1])), None
    if n == 25 and spk[:3] == b'\x76\xa9\x14' and spk[23:] == b'\x88\xac':
        return 'Pay2PublicKeyHash', btc.b58check(bytes([pkh_ver]) + spk[3:23]), None
    if n == 23 and spk[:2] == b'\xa9\x14' and spk[22] == 0x87:
        return 'Pay2ScriptHash', btc.b58check(bytes([sh_ver]) + spk[2:22]), None
    if 4 <= n <= 42 and (spk[0] == 0 or 0x51 <= spk[0] <= 0x60) and spk[1] == n - 2 and 2 <= spk[1] <= 40:
        ver = 0 if spk[0] == 0 else spk[0] - 0x50
        prog = spk[2:]
        if ver == 0 and len(prog) == 20:
            return 'Pay2WitnessPublicKeyHash', btc.segwit_addr(hrp, 0, prog), None
        if ver == 0 and len(prog) == 32:
            return 'Pay2WitnessScriptHash', btc.segwit_addr(hrp, 0, prog), None
        if ver == 1 and len(prog) == 32:
            return 'Pay2Taproot', btc.segwit_addr(hrp, 1, prog), None
        if ver == 0:
            return 'WitnessProgram', None, None       # v0 with an illegal length: not addressable
        return 'WitnessProgram', btc.segwit_addr(hrp, ver, prog), None
    if is_multisig(spk):
        return 'Pay2MultiSig', None, None
    return 'NotRecognised', None, None


def is_multisig(spk):
    """m <key>... n OP_CHECKMULTISIG with 1 <= m <= n = number of pushes <= 16 (keys: any push)"""
    t = tokenize(spk)
    if t is None or len(t) < 3:
        return False
    if t[0][0] != 'op' or not 0x51 <= t[0][1] <= 0x60:
        return False
    if t[-1] != ('op', 0xae) or t[-2][0] != 'op' or not 0x51 <= t[-2][1] <= 0x60:
        return False
    keys = t[1:-2]
    if any(k[0] != 'push' for k in keys):
        return False
    m, nn = t[0][1] - 0x50, t[-2][1] - 0x50
    return nn == len(keys) and 1 <= m <= nn


def multisig_gray(spk):
    """scripts whose multisig *label* the statement leaves open (see DESIGN 6/C05): m = 0 written as OP_0,
    keys of a length other than 33/65; everything else is decided"""
    t = tokenize(spk)
    if t is None or len(t) < 3 or t[-1] != ('op', 0xae):
        return False
    # (no label is left open any more: since the repair of section 13 the code implements the statement's structural rule - any
    # push counts as a key - and the checks hold it to that)
    return False


def classify_fork(spk, coin):
    """C06 reference -> (pattern, address or None, payload bytes or None)"""
    ver = btc.COINS[coin]['ver']
    t = tokenize(spk)
    if t is None:
        return 'NotRecognised', None, None
    el = []
    for x in t:
        if x[0] == 'push':
            if len(x[2]) > 0:
                el.append(('D', x[2]))
            else:
                el.append(('O', x[1]))       # empty push: stays an opcode, fits no data slot
        elif x[1] not in NOPS:
            el.append(('O', x[1]))
    kinds = [('D' if e[0] == 'D' else e[1]) for e in el]
    if kinds == [0x76, 0xa9, 'D', 0x88, 0xac]:
        return 'Pay2PublicKeyHash', btc.b58check(bytes([ver]) + el[2][1]), None
    if kinds == ['D', 0xac]:
        return 'Pay2PublicKey', btc.b58check(bytes([ver]) + btc.hash160(el[0][1])), None
    if kinds == [0xa9, 'D', 0x87]:
        return 'Pay2ScriptHash', btc.b58check(bytes([5]) + el[1][1]), None
    if kinds == [0x6a, 'D']:
        return 'OpReturn', None, el[1][1]
    if kinds == [0x52, 'D', 'D', 'D', 0x53, 0xae]:
        return 'Pay2MultiSig', None, None
    return 'NotRecognised', None, None


def classify(spk, coin):
    if coin in ('bitcoin', 'testnet3'):
        return classify_btc(spk, coin)
    return classify_fork(spk, coin)


# ---------------------------------------------------------------------------------------------
# csvdump rows


def csv_rows(block, height, coin, size=None):
    """block = datadir.mk_block dict -> dict file -> bytes (rows of this block)"""
    hdr = block['hdr']
    ver, = struct.unpack('<I', hdr[:4])
    t, bits, nonce = struct.unpack('<III', hdr[68:80])
    size = len(block['raw']) if size is None else size
    bh = btc.hexrev(block['hash'])
    out = {'blocks': '%s;%d;%d;%d;%s;%s;%d;%d;%d\n' % (bh, height, ver, size, btc.hexrev(hdr[4:36]),
                                                     btc.hexrev(hdr[36:68]), t, bits, nonce),
           'transactions': '', 'tx_in': '', 'tx_out': ''}
    txr, inr, outr = [], [], []
    for tx in block['txs']:
        tid = btc.hexrev(btc.txid(tx))
        txr.append('%s;%s;%d;%d\n' % (tid, bh, tx['ver'], tx['lock']))
        for i in tx['ins']:
            inr.append('%s;%s;%d;%s;%d\n' % (tid, btc.hexrev(i['txid']), i['idx'], i['sig'].hex(), i['seq']))
        for k, o in enumerate(tx['outs']):
            addr = classify(o['spk'], coin)[1] or ''
            outr.append('%s;%d;%d;%s;%s\n' % (tid, k, o['val'], o['spk'].hex(), addr))
    out['transactions'] = ''.join(txr)
    out['tx_in'] = ''.join(inr)
    out['tx_out'] = ''.join(outr)
    return {k: v.encode() for k, v in out.items()}


def csv_expected(blocks_with_heights, coin):
    """[(height, block)] -> {file -> bytes}, totals"""
    acc = {'blocks': [], 'transactions': [], 'tx_in': [], 'tx_out': []}
    ntx = nin = nout = 0
    for h, b in blocks_with_heights:
        r = csv_rows(b, h, coin, b.get('size'))
        for k in acc:
            acc[k].append(r[k])
        ntx += len(b['txs'])
        nin += sum(len(t['ins']) for t in b['txs'])
        nout += sum(len(t['outs']) for t in b['txs'])
    return {k: b''.join(v) for k, v in acc.items()}, (ntx, nin, nout)


# ---------------------------------------------------------------------------------------------
# UTXO / balances


def utxo_expected(blocks_with_heights, coin):
    """-> dict (txid_hex, index) -> (height, value, address)"""
    u = {}
    for h, b in blocks_with_heights:
        for tx in b['txs']:
            for i in tx['ins']:
                u.pop((btc.hexrev(i['txid']), i['idx']), None)
            tid = btc.hexrev(btc.txid(tx))
            for k, o in enumerate(tx['outs']):
                a = classify(o['spk'], coin)[1]
                if a is not None:
                    u[(tid, k)] = (h, o['val'], a)
    return u


def unspent_rows(u):
    return {'%s;%d;%d;%d;%s' % (k[0], k[1], v[0], v[1], v[2]) for k, v in u.items()}


def balances_rows(u):
    bal = {}
    for v in u.values():
        bal[v[2]] = bal.get(v[2], 0) + v[1]
    return {'%s;%d' % (a, s) for a, s in bal.items()}


# ---------------------------------------------------------------------------------------------
# opreturn lines


def opreturn_expected(blocks_with_heights, coin):
    """-> list of (line bytes or None-if-unjudged)"""
    lines = []
    btc_like = coin in ('bitcoin', 'testnet3')
    for h, b in blocks_with_heights:
        for tx in b['txs']:
            tid = btc.hexrev(btc.txid(tx))
            for o in tx['outs']:
                pat, _, payload = classify(o['spk'], coin)
                if pat != 'OpReturn':
                    continue
                if payload is None:
                    lines.append(None)     # OP_RETURN followed by something else than one push: not judged
                    continue
                if not payload:
                    continue
                if btc_like:
                    try:
                        text = payload.decode('utf-8')
                    except UnicodeDecodeError:
                        continue
                else:
                    text = payload.decode('utf-8', errors='replace')
                lines.append(('height: %-9d txid: %s    data: %s\n' % (h, tid, text)).encode('utf-8'))
    return lines


# ---------------------------------------------------------------------------------------------
# simplestats


def base_reward(h):
    return (50 * 100000000) >> (h // 210000)


def is_coinbase(tx):
    return len(tx['ins']) == 1 and tx['ins'][0]['txid'] == b'\0' * 32 and tx['ins'][0]['idx'] == 0xffffffff


def stats_expected(blocks_with_heights, coin):
    s = dict(blocks=0, txs=0, ins=0, outs=0, fees=0, volume=0, big_value=(0, 0, '0' * 64), big_size=(0, 0, '0' * 64),
             sizes=[], gaps=[], types={}, first={})
    last_t = None
    for h, b in blocks_with_heights:
        s['blocks'] += 1
        s['txs'] += len(b['txs'])
        s['sizes'].append(b.get('size', len(b['raw'])))
        for tx in b['txs']:
            tid = btc.hexrev(btc.txid(tx))
            if is_coinbase(tx) and tx['outs']:
                s['fees'] += max(0, tx['outs'][0]['val'] - base_reward(h))
            s['ins'] += len(tx['ins'])
            s['outs'] += len(tx['outs'])
            v = 0
            for k, o in enumerate(tx['outs']):
                pat = classify(o['spk'], coin)[0]
                s['types'][pat] = s['types'].get(pat, 0) + 1
                s['first'].setdefault(pat, (h, tid))
                v += o['val']
            if v > s['big_value'][0]:
                s['big_value'] = (v, h, tid)
            s['volume'] += v
            sz = len(btc.ser_tx(tx, False))
            if sz > s['big_size'][0]:
                s['big_size'] = (sz, h, tid)
        t, = struct.unpack('<I', b['hdr'][68:72])
        if last_t is not None:
            s['gaps'].append(max(0, t - last_t))
        last_t = t
    return s


def mean(xs):
    return Fraction(sum(xs), len(xs)) if xs else Fraction(0)
