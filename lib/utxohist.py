"""Concretisation of abstract transaction histories (Utxo.tla) into real chains."""
import random
import struct

from . import btc, datadir

U = 2 ** 33 + 12345          # one value unit: sums leave 32 bits quickly, exact in Python

KEYS = {'a': bytes.fromhex('02' + '11' * 32), 'b': bytes.fromhex('04' + '22' * 64), 'c': bytes.fromhex('03' + '33' * 32)}


LONGPROG = bytes(range(40))


def addr_of(name, coin='bitcoin'):
    if name == 'b' and coin == 'bitcoin':
        return btc.segwit_addr('bc', 16, LONGPROG)      # 74 characters: the longest address there is
    return btc.b58check(bytes([btc.COINS[coin]['ver']]) + btc.hash160(KEYS[name]))


def spk_for(addr, salt, coin='litecoin'):
    """'a'/'b'/...: the same address through P2PKH and P2PK; 'none': scripts that carry no address"""
    if addr == 'none':
        return [b'\x6a' + btc.push(b'data%d' % salt), b'\x51' + btc.push(KEYS['a']) + b'\x51\xae', b'\x51', b''][salt % 4]
    key = KEYS[addr]
    if addr == 'b' and coin == 'bitcoin':
        return b'\x60\x28' + LONGPROG                      # OP_16 <40-byte program>
    return btc.p2pk(key) if salt % 2 else btc.p2pkh(btc.hash160(key))


class Cyclic(Exception):
    pass


def concretise(hist, unit=U, coin='bitcoin'):
    """hist: list of {id, blk, ins:[{t,i}], outs:[{addr,val}]} -> (blocks, txid_of: id -> bytes)"""
    by_id = {}
    for tx in hist:
        by_id.setdefault(tx['id'], tx)
    txids, txs, state = {}, {}, {}

    def unknown(t):
        return btc.sha256d(b'unknown-tx-%d' % t)

    def build(i):
        if i in txids:
            return txids[i]
        if state.get(i) == 'busy':
            raise Cyclic()
        state[i] = 'busy'
        tx = by_id[i]
        ins = []
        for n, x in enumerate(tx['ins']):
            ref = build(x['t']) if x['t'] in by_id else unknown(x['t'])
            ins.append({'txid': ref, 'idx': x['i'], 'sig': b'\x01' + bytes([n]), 'seq': 0xffffffff})
        outs = [{'val': o['val'] * unit, 'spk': spk_for(o['addr'], i + k, coin)} for k, o in enumerate(tx['outs'])]
        t = {'ver': 1, 'ins': ins, 'outs': outs, 'lock': i}
        txs[i] = t
        txids[i] = btc.txid(t)
        state[i] = 'done'
        return txids[i]
    for tx in hist:
        build(tx['id'])
    nblk = max(tx['blk'] for tx in hist) + 1 if hist else 1
    blocks, prev = [], b'\0' * 32
    for b in range(nblk):
        cb = btc.coinbase(b, None, outs=[{'val': 0, 'spk': b'\x6a' + btc.push(b'cb%d' % b)}])
        body = [cb] + [txs[tx['id']] for tx in hist if tx['blk'] == b]
        blk = datadir.mk_block(prev, body, t=1231006505 + 600 * b, nonce=b)
        blocks.append(blk)
        prev = blk['hash']
    return blocks, txids


def expected_rows(rows, bal, txids, unit=U, coin='bitcoin'):
    """the specification's final map / balances rendered as CSV rows"""
    ur = {'%s;%d;%d;%d;%s' % (btc.hexrev(txids[r['txid']]), r['idx'], r['h'], r['val'] * unit, addr_of(r['addr'], coin)) for r in rows}
    br = {'%s;%d' % (addr_of(b['addr'], coin), b['sum'] * unit) for b in bal}
    return ur, br


def random_history(rng, ntx, nblk, max_out=4, big_out_every=0):
    """long random history in the same abstract form (values small: the trace specification adds them in TLC integers)"""
    hist = []
    created = []
    # transactions that may be referenced before they exist: they spend unknown outpoints only (no cyclic txids)
    leaf = set(rng.sample(range(1, ntx + 1), max(1, ntx // 8)))
    for i in range(1, ntx + 1):
        blk = min(nblk - 1, (i - 1) * nblk // ntx)
        ins = []
        for _ in range(rng.choice([1, 1, 1, 2, 3])):
            c = rng.random()
            later = [x for x in leaf if x > i]
            if i in leaf:
                ins.append({'t': 0, 'i': rng.randrange(1000)})
            elif created and c < 0.6:
                ins.append(dict(zip('ti', rng.choice(created))))
            elif c < 0.75:
                ins.append({'t': 0, 'i': rng.randrange(3)})
            elif c < 0.85 and later:
                ins.append({'t': rng.choice(later), 'i': rng.randrange(2)})     # forward reference
            else:
                ins.append({'t': rng.randrange(1, i) if i > 1 else 0, 'i': rng.randrange(max_out + 1)})
        nout = rng.randrange(0, max_out + 1)
        if big_out_every and i % big_out_every == 0:
            nout = 258
        outs = [{'addr': rng.choice(['a', 'b', 'c', 'none']), 'val': rng.randrange(0, 50)} for _ in range(nout)]
        if rng.random() < 0.05 and hist:
            src = rng.choice(hist)
            hist.append({'id': src['id'], 'blk': blk, 'ins': src['ins'], 'outs': src['outs']})
            continue
        hist.append({'id': i, 'blk': blk, 'ins': ins, 'outs': outs})
        created += [(i, k) for k in range(nout)]
    return hist


def write_chain(w, blocks, coin='bitcoin', nfiles=1):
    d = datadir.DataDir(w.sub('dd'), coin)
    for h, b in enumerate(blocks):
        off = d.place(h % nfiles, b['raw'])
        d.record(b['hdr'], h, datadir.ACTIVE, len(b['txs']), h % nfiles, off)
    d.core_extras()
    d.write()
    return d
