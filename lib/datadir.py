"""Concretisation: abstract scenario -> real data directory (blk*.dat, xor.dat, LevelDB index)."""
import hashlib
import os
import shutil
import struct

from . import btc
from .ldb import write_leveldb


class DataDir:
    def __init__(self, path, coin='bitcoin'):
        self.path = path
        self.coin = coin
        self.magic = btc.COINS[coin]['magic']
        self.files = {}      # fileno -> list of (offset, bytes)
        self.ends = {}       # fileno -> current end offset
        self.kvs = {}        # index key -> value
        self.extra_files = {}

    # -- blk files ---------------------------------------------------------------------
    def raw(self, fileno, data, at=None):
        """place arbitrary bytes; returns the offset they start at"""
        end = self.ends.get(fileno, 0)
        if at is None:
            at = end
        self.files.setdefault(fileno, []).append((at, data))
        self.ends[fileno] = max(end, at + len(data))
        return at

    def place(self, fileno, block_bytes, at=None, size=None, magic=None, fill=False):
        """magic + size prefix + block; returns the data offset recorded in the index"""
        size = len(block_bytes) if size is None else size
        if magic is None:
            # the index names the data offset only; the eight bytes before it are not an input.  Ambient variation: every
            # fifth block is preceded by another network's magic or by arbitrary bytes (RBP_VERIF_NO_AMBIENT=1 switches it off).
            self._placed = getattr(self, '_placed', 0) + 1
            magic = self.magic
            if os.environ.get('RBP_VERIF_NO_AMBIENT') is None and self._placed % 5 == 3:
                magic = (0x40cf030a, 0xdab5bffa, 0x00000000, 0xffffffff)[(self._placed // 5) % 4]
        # fill: the record really is as long as its prefix says - zero padding after the block (a prefix may cover more than the block)
        tail = b'\0' * (size - len(block_bytes)) if fill and size > len(block_bytes) else b''
        start = self.raw(fileno, struct.pack('<II', magic, size) + block_bytes + tail, at)
        return start + 8

    # -- index -------------------------------------------------------------------------
    def record(self, hdr, height, status, ntx=1, fileno=0, off=0, undo=0, ver=None, key=None):
        h = btc.sha256d(hdr) if key is None else key
        if ver is None:
            ver = struct.unpack('<I', hdr[:4])[0]
            if os.environ.get('RBP_VERIF_NO_AMBIENT') is None:
                # first field of a record is the client version that wrote it; status bits beyond those Bitcoin Core defines
                # (BLOCK_STATUS_RESERVED, anything a later release adds) mean nothing to a parser
                self._recs = getattr(self, '_recs', 0) + 1
                if self._recs % 4 == 2:
                    ver = (259900, 70015, 2 ** 32 - 1, 2 ** 63)[(self._recs // 4) % 4]
                if self._recs % 6 == 3:
                    status |= (256, 1 << 12, 1 << 31, 1 << 40)[(self._recs // 6) % 4]
        value = btc.index_record(ver, height, status, ntx, fileno, off, undo, hdr)
        if os.environ.get('RBP_VERIF_NO_AMBIENT') is None and getattr(self, '_recs', 0) % 7 == 5:
            # indexes of some forks (and of old AuxPoW coins) serialise further data after the 80-byte header: a reader takes the
            # header where it stands and ignores the rest
            value += hashlib.sha256(h).digest() + b'\x01\x02\x03\x04\x05'
        self.kvs[b'b' + h] = value
        if status & btc.HAVE_DATA:
            # what Bitcoin Core's per-file record ('f' + file number) says about this file: every block stored in it counts,
            # on the active chain or not
            fi = self.__dict__.setdefault('_finfo', {}).setdefault(fileno, [0, height, height])
            fi[0] += 1
            fi[1], fi[2] = min(fi[1], height), max(fi[2], height)
        return h

    def key(self, k, v):
        self.kvs[k] = v

    def core_extras(self):
        """keys a real node also writes: file info, last file, reindex flag, flags"""
        # CBlockFileInfo: nBlocks, nSize, nUndoSize, nHeightFirst, nHeightLast, nTimeFirst, nTimeLast (seven VarInts)
        for fno in list(self.files):
            if fno < 2 ** 32:
                n, lo, hi = getattr(self, '_finfo', {}).get(fno, [0, 0, 0])
                size = sum(len(dta) for _, dta in self.files[fno])
                self.kvs[b'f' + struct.pack('<I', fno)] = b''.join(btc.core_varint(x) for x in (n, size, 0, lo, hi, 1231006505, 1231006505 + 600 * n))
        self.kvs[b'l'] = struct.pack('<I', 0)
        self.kvs[b'R'] = b'\x00'
        self.kvs[b'F' + b'\x07txindex'] = b'1'
        # every other family of keys a blocks/index database has held over the years (none of them is a block record):
        # transaction index entries of old releases and of the forks ('t' + txid, the same length as a block key), the pruning
        # flag, LevelDB-obfuscation key, and keys nobody has defined yet
        hs = hashlib.sha256(self.path.encode()).digest()
        self.kvs[b't' + hs] = btc.core_varint(0) + btc.core_varint(8) + btc.core_varint(81)
        self.kvs[b't' + hs[::-1]] = btc.core_varint(3) + btc.core_varint(300) + btc.core_varint(5)
        self.kvs[b'F' + b'\x10prunedblockfiles'] = b'0'
        self.kvs[b'\x0e\x00obfuscate_key'] = b'\x08' + hs[:8]
        self.kvs[b'B'] = hs
        self.kvs[b'a' + hs[:7]] = b''
        self.kvs[b'c' + hs] = hs
        self.kvs[b'\xff' + hs[:3]] = b'x'

    # -- materialise -------------------------------------------------------------------
    def write(self, xor_key=None, name=lambda n: 'blk%05d.dat' % n, plain=False):
        # ambient variation: unless the caller asks for plaintext, one directory in four is XOR-obfuscated with Core's 8-byte
        # key form - no result may depend on it (C11)
        if xor_key is None and not plain and os.environ.get('RBP_VERIF_NO_AMBIENT') is None:
            hsh = hashlib.md5(self.path.encode()).digest()
            if hsh[0] % 4 == 0:
                xor_key = hsh[1:9]
        shutil.rmtree(self.path, ignore_errors=True)
        os.makedirs(self.path)
        order = list(self.files.items())
        if os.environ.get('RBP_VERIF_NO_AMBIENT') is None:
            # creation order of the blk files varies (it is the listing order on some file systems)
            order.sort(key=lambda kv: hashlib.md5(self.path.encode() + str(kv[0]).encode()).digest())
        for fno, segs in order:
            with open(os.path.join(self.path, name(fno)), 'wb') as f:
                for at, data in segs:
                    if xor_key:
                        k = xor_key
                        n = len(k)
                        if n == 1:
                            data = bytes(b ^ k[0] for b in data)
                        else:
                            rot = at % n
                            kk = (k[rot:] + k[:rot]) * (len(data) // n + 1)
                            data = (int.from_bytes(data, 'little') ^ int.from_bytes(kk[:len(data)], 'little')).to_bytes(len(data), 'little')
                    f.seek(at)
                    f.write(data)
        amb = os.environ.get('RBP_VERIF_NO_AMBIENT') is None
        hsh = hashlib.md5(self.path.encode()).digest()
        if xor_key is not None:
            # xor.dat may itself be a symbolic link (data directories assembled with `ln -s`), relative or absolute
            how = hsh[9] % 3 if amb else 0
            if how == 0:
                target = os.path.join(self.path, 'xor.dat')
            elif how == 1:
                target = os.path.join(self.path, 'k')
                os.symlink('k', os.path.join(self.path, 'xor.dat'))
            else:
                target = self.path.rstrip('/') + '.the-real-obfuscation-key-file-lives-outside-the-data-directory'
                os.symlink(target, os.path.join(self.path, 'xor.dat'))
            with open(target, 'wb') as f:
                f.write(xor_key)
        if amb and hsh[11] % 5 == 0:
            # blk files kept on other storage and linked into the directory (absolute symbolic links; the key file stays here)
            cold = self.path.rstrip('/') + '-cold'
            shutil.rmtree(cold, ignore_errors=True)
            os.makedirs(cold)
            for k_, f in enumerate(sorted(os.listdir(self.path))):
                full = os.path.join(self.path, f)
                if f.startswith('blk') and f.endswith('.dat') and os.path.isfile(full) and not os.path.islink(full) and (hsh[12] % 2 == 0 or (hsh[13] >> (k_ % 8)) & 1):
                    os.rename(full, os.path.join(cold, f))
                    os.symlink(os.path.join(cold, f), full)
        if amb and hsh[14] % 3 == 0 and not os.path.exists(os.path.join(self.path, 'blk77777.dat')):
            # a blk-named file that no record names and that only its owner could read (mode 000): it is never opened
            with open(os.path.join(self.path, 'blk77777.dat'), 'wb') as f:
                f.write(struct.pack('<II', self.magic, 81) + hsh * 6)
            os.chmod(os.path.join(self.path, 'blk77777.dat'), 0)
        if amb and hsh[10] % 4 == 0:
            # a leftover copy of another node's blocks folder inside this one: sub-directories are named by no record
            sub = os.path.join(self.path, 'blocks')
            os.makedirs(sub)
            fb = mk_block(hsh * 2, [btc.coinbase(0, btc.p2pkh(hsh[:20]))], nonce=7)
            with open(os.path.join(sub, 'blk00000.dat'), 'wb') as f:
                f.write(struct.pack('<II', self.magic, len(fb['raw'])) + fb['raw'])
            write_leveldb(os.path.join(sub, 'index'), [(b'b' + fb['hash'], btc.index_record(1, 0, ACTIVE, 1, 0, 8, 0, fb['hdr']))])
        elif amb and hsh[10] % 4 == 1:
            os.makedirs(os.path.join(self.path, 'blocks', 'index'))
        for nm, data in self.extra_files.items():
            with open(os.path.join(self.path, nm), 'wb') as f:
                f.write(data)
        write_leveldb(os.path.join(self.path, 'index'), sorted(self.kvs.items()))
        return self.path


def mk_block(prev, txs, t=1231006505, ver=1, bits=0x1d00ffff, nonce=0, aux=None, mr=None, w_ntx=None):
    """-> dict(hdr, hash, txs, raw)"""
    mr = btc.merkle([btc.txid(x) for x in txs]) if mr is None else mr
    hdr = btc.header(ver, prev, mr, t, bits, nonce)
    return {'hdr': hdr, 'hash': btc.sha256d(hdr), 'txs': txs, 'raw': btc.ser_block(hdr, txs, aux, w_ntx),
            'aux': aux, 'ver': ver}


def linear_chain(n, txs_fn=None, t0=1231006505, dt=600, ver=1, prev=b'\0' * 32, h0=0):
    """n blocks; txs_fn(height) -> list of txs (default: one coinbase paying a per-height P2PKH)"""
    out = []
    for i in range(n):
        h = h0 + i
        txs = txs_fn(h) if txs_fn else [btc.coinbase(h, btc.p2pkh(bytes([(h % 250) + 1]) * 20))]
        b = mk_block(prev, txs, t=t0 + dt * h, ver=ver, nonce=h)
        out.append(b)
        prev = b['hash']
    return out


ACTIVE = btc.VALID_SCRIPTS | btc.HAVE_DATA | btc.HAVE_UNDO


def simple_dir(path, blocks, coin='bitcoin', h0=0, fileno=0, extras=True):
    """all blocks in one file, in order, active records"""
    d = DataDir(path, coin)
    for i, b in enumerate(blocks):
        off = d.place(fileno, b['raw'])
        d.record(b['hdr'], h0 + i, ACTIVE, len(b['txs']), fileno, off)
    if extras:
        d.core_extras()
    return d
