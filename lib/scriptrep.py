"""Replay of Script.tla's verdicts against script::eval_from_bytes (driver script-eval) and against lib/ref.py."""
import random
import struct

from . import btc, ref, run

OPBYTES = {'DUP': [0x76], 'HASH160': [0xa9], 'EQUALVERIFY': [0x88], 'CHECKSIG': [0xac], 'EQUAL': [0x87], 'RETURN': [0x6a],
           'CHECKMULTISIG': [0xae], 'OP0': [0x00], 'N1': [0x51], 'N2': [0x52], 'N3': [0x53], 'N16': [0x60], **{'N%d' % k: [0x50 + k] for k in range(4, 16)},
           'NOP': [0x61], 'NOP4': [0xb0, 0xb1, 0xb2, 0xb3, 0xb9], 'RESERVED': [0x50, 0x62, 0x89, 0x8a], 'VERIF': [0x65, 0x66],
           'CAT': [0x7e, 0x7f, 0x80, 0x81, 0x83, 0x84, 0x85, 0x86, 0x8d, 0x8e, 0x95, 0x96, 0x97, 0x98, 0x99],
           'HIGH': list(range(0xba, 0xff)), 'INVALID': [0xff], 'ADD': [0x93, 0x75, 0x63, 0x68, 0xa8, 0xaa, 0xad, 0xaf, 0x7c], 'NEG1': [0x4f]}


POOL = {}


def item_bytes(it, rng):
    """-> (bytes, payload or None)"""
    if it['k'] == 'op':
        return bytes([rng.choice(OPBYTES[it['name']])]), None
    if it['k'] == 'push':
        n = it['len']
        # payloads come from a pool of two per length, so that different scripts embed the SAME hash / key / program:
        # an evaluator that remembers anything from one script to the next (a cache) is exposed by the neighbours
        data = POOL.setdefault((n, rng.randrange(2)), rng.randbytes(n)) if n <= 80 else rng.randbytes(n)
        f = it['form']
        head = bytes([n]) if f == 'd' else b'\x4c' + bytes([n]) if f == 'p1' else b'\x4d' + struct.pack('<H', n) if f == 'p2' else b'\x4e' + struct.pack('<I', n)
        return head + data, data
    f, why = it['form'], it['why']
    if why == 'nolen':
        return {'p1': b'\x4c', 'p2': b'\x4d' + rng.randbytes(rng.randrange(2)), 'p4': b'\x4e' + rng.randbytes(rng.randrange(4))}[f], None
    n = rng.choice([1, 2, 20, 75]) if f == 'd' else rng.choice([1, 76, 255]) if f == 'p1' else rng.choice([1, 300, 65535]) if f == 'p2' else rng.choice([1, 70000, 2 ** 32 - 1, 2 ** 31])
    have = rng.randrange(0, min(n, 40))
    head = bytes([n]) if f == 'd' else b'\x4c' + bytes([n]) if f == 'p1' else b'\x4d' + struct.pack('<H', n) if f == 'p2' else b'\x4e' + struct.pack('<I', n)
    return head + rng.randbytes(have), None


def concretise(items, rng):
    out, payloads = b'', []
    for it in items:
        b, p = item_bytes(it, rng)
        out += b
        payloads.append(p)
    return out, payloads


def expect_addr(verdict, payloads, items, coin):
    a = verdict['addr']
    k = a['kind']
    if k == 'none':
        return None
    p = payloads[a['slot'] - 1]
    c = btc.COINS[coin]
    if k == 'p2pk':
        return btc.b58check(bytes([c['ver']]) + btc.hash160(p))
    if k == 'p2pkh':
        return btc.b58check(bytes([c['ver']]) + p)
    if k == 'p2sh':
        return btc.b58check(bytes([c['p2sh']]) + p)
    if k in ('bech32', 'bech32m'):
        name = items[0]['name']
        ver = 0 if name == 'OP0' else int(name[1:])
        return btc.segwit_addr(c['hrp'], ver, p)
    if k == 'ver+payload':
        return btc.b58check(bytes([c['ver']]) + p)
    if k == 'ver+hash160':
        return btc.b58check(bytes([c['ver']]) + btc.hash160(p))
    if k == '05+payload':
        return btc.b58check(b'\x05' + p)
    raise ValueError(k)


def expect_data(verdict, payloads, btc_like):
    """expected OP_RETURN text as bytes; None = not judged"""
    if verdict['pat'] != 'OpReturn':
        return None
    pl = verdict['payload']
    if pl == -1:
        return None
    raw = b'' if pl == 0 else payloads[pl - 1]
    if btc_like:
        try:
            raw.decode('utf-8')
            return raw
        except UnicodeDecodeError:
            return b''
    return raw.decode('utf-8', errors='replace').encode('utf-8')


def eval_scripts(coin, scripts):
    """run the real evaluator on many scripts -> list of dicts"""
    ver = btc.COINS[coin]['ver']
    rc, outs, err = run.run_driver('script-eval', ['%02x %s' % (ver, s.hex()) for s in scripts])
    if len(outs) != len(scripts):
        raise run.ToolError('script-eval answered %d of %d lines: %s' % (len(outs), len(scripts), err[-300:]))
    return outs


def compare(got, pat, addr, data, gray=False):
    """-> problem string or None"""
    if not isinstance(got, dict):
        return 'unparsable driver answer %r' % (got,)
    if 'panic' in got:
        return 'evaluation panicked: %s' % got['panic']
    if got.get('address') != addr:
        return 'address %s, reference says %s' % (got.get('address'), addr)
    if got.get('pattern') != pat and not (gray and got.get('pattern') in ('Pay2MultiSig', 'NotRecognised')):
        return 'type %s, reference says %s' % (got.get('pattern'), pat)
    if data is not None and got.get('pattern') == 'OpReturn' and bytes.fromhex(got.get('data', '')) != data:
        return 'OP_RETURN payload %r, reference says %r' % (bytes.fromhex(got.get('data', ''))[:60], data[:60])
    return None


def check_address_decodes(addr, coin, script):
    """every reported bitcoin/testnet address carries the network prefix, a valid checksum and decodes to bytes of the script"""
    c = btc.COINS[coin]
    if addr is None:
        return None
    try:
        if addr.lower().startswith(c['hrp'] + '1'):
            hrp, ver, prog = btc.segwit_decode(addr)
            if hrp != c['hrp'] or prog not in script:
                return 'bech32 address %s does not decode to the witness program in the script' % addr
        else:
            body = btc.b58check_decode(addr)
            if body[0] not in (c['ver'], c['p2sh']):
                return 'address %s has version byte %#x' % (addr, body[0])
            if body[1:] not in script and not any(btc.hash160(script[i:j]) == body[1:] for i, j in ((1, 34), (1, 66))):
                return 'address %s does not decode to a hash embedded in the script' % addr
    except ValueError as e:
        return 'address %s: %s' % (addr, e)
    return None


def random_scripts(rng, n, maxlen=200):
    """byte strings beyond the model's universe: random bytes, leading opcodes x tails, template byte mutations, many pushes"""
    tpl = [btc.p2pkh(rng.randbytes(20)), btc.p2sh(rng.randbytes(20)), btc.p2pk(b'\x02' + rng.randbytes(32)), btc.p2pk(b'\x04' + rng.randbytes(64)),
           b'\x00\x14' + rng.randbytes(20), b'\x00\x20' + rng.randbytes(32), b'\x51\x20' + rng.randbytes(32),
           b'\x6a' + btc.push(b'hello world'), b'\x6a\x4c\x50' + rng.randbytes(80),
           b'\x52' + btc.push(rng.randbytes(33)) * 3 + b'\x53\xae', b'\x51' + btc.push(rng.randbytes(65)) + b'\x51\xae']
    out = []
    for first in range(256):
        out.append(bytes([first]) + rng.randbytes(rng.randrange(0, 6)))
    for t in tpl:
        for i in range(len(t)):
            m = bytearray(t)
            m[i] = rng.randrange(256)
            out.append(bytes(m))
            out.append(t[:i])
            out.append(t + bytes([rng.randrange(256)]))
    while len(out) < n:
        c = rng.random()
        if c < 0.4:
            out.append(rng.randbytes(rng.randrange(0, maxlen)))
        elif c < 0.7:
            toks = b''
            for _ in range(rng.randrange(1, 8)):
                if rng.random() < 0.5:
                    toks += bytes([rng.choice([0x76, 0xa9, 0x88, 0xac, 0x87, 0x6a, 0xae, 0x00, 0x51, 0x52, 0x53, 0x60, 0x61, 0xb1, 0x4f])])
                else:
                    ln = rng.choice([0, 1, 20, 32, 33, 65, 75, 76, 80])
                    toks += btc.push(rng.randbytes(ln), rng.choice([None, 1, 2, 4] + (['d'] if 0 < ln <= 75 else [])))
            out.append(toks)
        else:
            t = bytearray(rng.choice(tpl))
            for _ in range(rng.randrange(1, 3)):
                t[rng.randrange(len(t))] ^= 1 << rng.randrange(8)
            out.append(bytes(t))
    # the same hash under different templates, back to back in both orders (nothing may be remembered between scripts)
    for _ in range(6):
        h = rng.randbytes(20)
        k = b'\x02' + rng.randbytes(32)
        kh = btc.hash160(k)
        out += [btc.p2pkh(h), btc.p2sh(h), btc.p2pkh(h), b'\x00\x14' + h, btc.p2sh(h), btc.p2pk(k), btc.p2sh(kh), btc.p2pkh(kh), btc.p2pk(k),
                b'\xa9' + btc.push(h, 1) + b'\x87', b'\x76\xa9' + btc.push(h, 1) + b'\x88\xac']
    # dimensions the statements leave unbounded: the length of a no-op run inserted into a template (leading, inner, trailing) ...
    nops = [0x61, 0xb0, 0xb1, 0xb2, 0xb3, 0xb9]
    h = rng.randbytes(20)
    k = b'\x03' + rng.randbytes(32)
    parts = [[b'\x76\xa9', btc.push(h), b'\x88\xac'], [b'\xa9', btc.push(h), b'\x87'], [btc.push(k), b'\xac'], [b'\x6a', btc.push(b'nop run')],
             [b'\x52', btc.push(k) * 3, b'\x53\xae']]
    for L in (1, 100, 197, 198, 199, 200, 201, 202, 203, 255, 256, 257, 1000, 9990, 20000):
        for pi, p in enumerate(parts):
            run_ = bytes(rng.choice(nops) for _ in range(L)) if L < 300 else bytes([nops[(L + pi) % len(nops)]]) * L
            pos = (L + pi) % (len(p) + 1)
            out.append(b''.join(p[:pos]) + run_ + b''.join(p[pos:]))
            if L in (198, 201, 256):
                out.append(run_ + b''.join(p))
                out.append(b''.join(p) + run_)
    # ... and the length of the data push inside a template-shaped script, in every push form
    for L in (0, 1, 19, 21, 32, 33, 61, 64, 65, 75, 76, 80, 255, 256, 520, 521, 9000, 70000):
        d = rng.randbytes(L)
        for form in ([None, 1, 2, 4] if L <= 75 else [1, 2, 4] if L <= 255 else [2, 4] if L <= 65535 else [4]):
            pd = btc.push(d, form)
            out += [b'\x76\xa9' + pd + b'\x88\xac', b'\xa9' + pd + b'\x87', pd + b'\xac'][(L + (form or 0)) % 3:][:2]
    # Namecoin name operations (OP_1/2/3 = name_new/firstupdate/update, arguments, drops) in front of an ordinary template:
    # to a template matcher these are just other tokens
    for tpl_ in (btc.p2pkh(h), btc.p2sh(h), btc.p2pk(k), b'\x6a' + btc.push(b'name')):
        out += [b'\x51' + btc.push(rng.randbytes(20)) + b'\x6d' + tpl_,
                b'\x52' + btc.push(b'd/example') + btc.push(rng.randbytes(8)) + btc.push(b'{}') + b'\x6d\x6d' + tpl_,
                b'\x53' + btc.push(b'd/example') + btc.push(b'{"ip":"1.2.3.4"}') + b'\x6d\x75' + tpl_,
                b'\x53' + btc.push(b'd/x', 1) + btc.push(b'v', 2) + b'\x6d\x75\x61' + tpl_, b'\x75' + tpl_, b'\x6d' + tpl_]
    # shapes every real chain is full of: witness commitment, pay-to-anchor, Omni / counterparty / runestone / ordinal-style
    # data carriers, Satoshi-era pay-to-pubkey with an uncompressed key, 1-of-1 .. 3-of-3 and 15-of-15 bare multisig,
    # Liquid-style fee outputs (empty script), OP_TRUE / anyone-can-spend, CLTV / CSV prefixed templates
    uk = b'\x04' + rng.randbytes(64)
    ks = [b'\x02' + rng.randbytes(32) for _ in range(15)]
    out += [b'\x6a\x24\xaa\x21\xa9\xed' + rng.randbytes(32), b'\x51\x02\x4e\x73', b'\x6a\x14omni' + rng.randbytes(16), b'\x6a' + btc.push(b'CNTRPRTY' + rng.randbytes(20)),
            b'\x6a\x5d' + btc.push(rng.randbytes(12)), b'\x6a\x5d', b'\x6a\x5d\x00', b'\x6a' + btc.push(b'ord') + b'\x01\x01' + btc.push(b'text/plain') + b'\x00' + btc.push(b'hi'),
            btc.p2pk(uk), b'\x51' + btc.push(ks[0]) + b'\x51\xae', b'\x52' + btc.push(ks[0]) + btc.push(ks[1]) + b'\x52\xae',
            b'\x53' + b''.join(btc.push(x) for x in ks[:3]) + b'\x53\xae', b'\x5f' + b''.join(btc.push(x) for x in ks) + b'\x5f\xae',
            b'\x51' + btc.push(uk) + btc.push(ks[1]) + btc.push(rng.randbytes(33)) + b'\x53\xae', b'', b'\x51', b'\x00', b'\x6a',
            btc.push((500000).to_bytes(3, 'little')) + b'\xb1\x75' + btc.p2pkh(h), btc.push(b'\x90') + b'\xb2\x75' + btc.p2pkh(h),
            b'\x63' + btc.p2pkh(h) + b'\x67' + btc.p2sh(h) + b'\x68', b'\xa9\x14' + h + b'\x87\x69', b'\x00\x14' + h + b'\x00', b'\x51\x20' + rng.randbytes(32) + b'\x51']
    # real curve points in every serialisation found on chain (compressed, uncompressed, hybrid 06/07, and a hybrid prefix that
    # contradicts the parity): an address hashes the pushed bytes, not a re-serialisation of the point
    for sk in (1, 2, 3, 0xdeadbeef, 2 ** 200 + 12345):
        enc = btc.pubkey_encodings(sk)
        for nm in ('compressed', 'uncompressed', 'hybrid', 'hybrid_wrong_parity'):
            out += [btc.p2pk(enc[nm]), btc.p2pk(enc[nm])[:1] + b'' + btc.p2pk(enc[nm])[1:]]
        out += [b'\x51' + btc.push(enc['hybrid']) + btc.push(enc['compressed']) + b'\x52\xae',
                b'\x52' + btc.push(enc['uncompressed']) + btc.push(enc['hybrid']) + btc.push(enc['compressed']) + b'\x53\xae',
                btc.p2pkh(btc.hash160(enc['hybrid'])), btc.p2pkh(btc.hash160(enc['uncompressed'])), b'\x51\x20' + enc['compressed'][1:]]
    # repetition: the byte-identical script several times in a row, directly after a script of another kind (what one evaluation
    # leaves behind - also on its error paths - must not colour the next): v0 witness programs of illegal length, truncated
    # pushes, templates
    for bad in (b'\x00\x10' + rng.randbytes(16), b'\x00\x05' + rng.randbytes(5), b'\x00\x28' + rng.randbytes(40), b'\x76\xa9\x4c', b'\x6a\x4d\x05',
                b'\x51\x21' + rng.randbytes(33), b'\x00\x14' + rng.randbytes(20), b'\x76\xa9\x14' + rng.randbytes(19)):
        for before in (btc.p2pkh(rng.randbytes(20)), btc.p2sh(rng.randbytes(20)), b'\x51\x20' + rng.randbytes(32), btc.p2pk(k)):
            out += [before, bad, bad, bad, before]
    # pairs of different scripts with the same 64-bit SipHash-1-3 fingerprint under the all-zero key (what `DefaultHasher::new()`
    # computes over version byte 0x00 followed by the script bytes; found by a 2^32 search in mutation round 9): a result looked
    # up by such a fingerprint alone belongs to the other script
    out += [bytes.fromhex(x) for x in ('76a914ee109e181d1d4d784330372d7262702d64656d6f88ac', '76a914a677383daaeba9ba4330372d7262702d64656d6f88ac',
                                       '76a9142e876977978f28314330372d7262702d64656d6f88ac', '6a1435ccd730bd5dda614330372d7262702d64656d6f',
                                       '76a914a677383daaeba9ba4330372d7262702d64656d6f88ac', '76a914ee109e181d1d4d784330372d7262702d64656d6f88ac')]
    # pushes whose Base58Check form under a fork coin's version byte (or 0x05) starts like another kind of address ('bc1...',
    # 'tb1...' with capitals, '1...', '3...'): an address is a string of exactly those characters
    for rep_ in range(3):
        for ver_, pl in btc.lookalike_payloads():
            out += [b'\xa9' + btc.push(pl, [None, 1, 2][rep_]) + b'\x87', b'\x76\xa9' + btc.push(pl, [None, 1, 2][rep_]) + b'\x88\xac', b'\x51']
    # multisig shapes with 17..20 keys, the count written as a one-byte push (what Bitcoin Core's standardness matcher accepts; the
    # statement's m-of-n stops at 16 = OP_16), and with m written that way
    for n_ in (17, 18, 20):
        keys_ = b''.join(btc.push(b'\x02' + rng.randbytes(32)) for _ in range(n_))
        out += [b'\x51' + keys_ + bytes([1, n_]) + b'\xae', bytes([1, 17]) + keys_ + bytes([1, n_]) + b'\xae', b'\x51' + b'\x00' * n_ + bytes([1, n_]) + b'\xae']
    # every opcode as the first byte of a two-element script "<opcode> <one push to the end>" (OP_RETURN is 0x6a and only 0x6a)
    for op_ in range(256):
        if op_ not in (0x4c, 0x4d, 0x4e) and not 1 <= op_ <= 75:
            out.append(bytes([op_]) + btc.push(b'charley loves heidi'))
    # scripts beyond Bitcoin's 10 000-byte script size limit are still just scripts for a parser
    out += [b'\x51' * 10001, b'\x6a' + btc.push(rng.randbytes(10100)), b'\x51' + btc.push(rng.randbytes(10050)) + b'\x51\xae',
            b'\x75' * 10000, b'\x75' * 20000]
    # many pushes (u8 counters), huge PUSHDATA4 lengths, long scripts
    out += [b'\x51' + b'\x01\x00' * 256 + b'\x60\xae', b'\x51' + b'\x01\x00' * 300 + b'\x60\xae', b'\x01\x00' * 10001,
            b'\x4e\xff\xff\xff\xff' + b'x' * 10, b'\x6a\x4e\xff\xff\xff\x7f', b'\x6a' + rng.randbytes(100000), rng.randbytes(100000),
            b'\x52' + btc.push(rng.randbytes(33)) * 17 + b'\x60\xae', b'']
    return out
