"""Trace validation: one TLC run of a Trace_*.tla spec per recorded execution."""
import json
import os
import re
import subprocess
import time

from . import run


def write_cmd(path, cb, start=None, end=None, verify=False, extra=None):
    """first line of a trace: the command the harness is about to run"""
    d = {'ev': 'cmd', 'cb': cb, 'start': start or 0, 'end': -1 if end is None else end, 'verify': bool(verify)}
    if extra:
        d.update(extra)
    with open(path, 'w') as f:
        f.write(json.dumps(d) + '\n')


def validate(trace, module='Trace_Run', cfg=None, timeout=300, env=None):
    """-> dict(accepted, states, reason, rejected_at, event, wall)"""
    cfg = cfg or module
    meta = trace + '.tlcmeta'
    os.makedirs(meta, exist_ok=True)
    cmd = ['timeout', '-k', '15', str(timeout), 'java', '-Djava.io.tmpdir=' + meta, '-XX:+UseSerialGC', '-Xmx3g', '-Xss1g',
           '-Dtlc2.tool.queue.IStateQueue=StateDeque', '-cp', run.TLA_JAR, 'tlc2.TLC', '-workers', '1',
           '-metadir', meta, '-cleanup', '-noGenerateSpecTE', '-config', cfg + '.cfg', module + '.tla']
    e = dict(os.environ, TRACE=trace)
    e.pop('JAVA_TOOL_OPTIONS', None)
    if env:
        e.update(env)
    t0 = time.time()
    r = subprocess.run(cmd, cwd=run.SPEC, env=e, stdout=subprocess.PIPE, stderr=subprocess.STDOUT, text=True)
    subprocess.run(['rm', '-rf', meta])
    out = r.stdout
    res = {'wall': time.time() - t0, 'accepted': False, 'reason': None, 'rejected_at': None, 'event': None, 'states': 0}
    m = None
    for m in re.finditer(r'(\d+) states generated, (\d+) distinct states found', out):
        pass
    if m:
        res['states'] = int(m.group(2))
    if r.returncode == 124:
        raise run.ToolError('trace validation timed out: ' + trace)
    if 'Model checking completed. No error has been found.' in out:
        res['accepted'] = True
        return res
    m = re.search(r'"TRACE-REJECTED at event",\s*(\d+),?\s*(.*?)>>\s*FALSE', out, re.S)
    if m:
        res['rejected_at'] = int(m.group(1))
        res['event'] = re.sub(r'\s+', ' ', m.group(2))[:400]
        res['reason'] = 'no specification action matches the event'
        return res
    m = re.search(r'Invariant (\w+) is violated', out)
    if m:
        res['reason'] = 'invariant ' + m.group(1)
        st = re.findall(r'/\\ l = (\d+)', out)
        if st:
            res['rejected_at'] = int(st[-1]) - 1
        return res
    m = re.search(r'Action property (\w+) is violated|property (\w+) is violated', out)
    if m:
        res['reason'] = 'action property ' + (m.group(1) or m.group(2))
        return res
    raise run.ToolError('trace validation failed to run on %s:\n%s' % (trace, out[-3000:]))


def validate_many(traces, module='Trace_Run', cfg=None, batch=40, workdir=None):
    """validate many trace files with few JVM starts: traces are concatenated (each starts with its cmd line);
    a rejection is attributed to the run it falls into and the rest of the batch is re-validated.
    -> list of verdict dicts in the order of `traces`"""
    import tempfile
    out = [None] * len(traces)

    def go(idxs):
        while idxs:
            lens = []
            fd, cat = tempfile.mkstemp(prefix='batch', suffix='.ndjson', dir=workdir or os.path.dirname(traces[idxs[0]]))
            with os.fdopen(fd, 'wb') as f:
                for i in idxs:
                    with open(traces[i], 'rb') as g:
                        lines = [ln for ln in g.read().splitlines() if ln.strip()]
                    # a torn last line (abort in the middle of a write) is dropped
                    if lines:
                        try:
                            json.loads(lines[-1])
                        except ValueError:
                            lines = lines[:-1]
                    lens.append(len(lines))
                    f.write(b'\n'.join(lines) + b'\n')
            v = validate(cat, module, cfg, timeout=900)
            os.unlink(cat)
            if v['accepted']:
                for i in idxs:
                    out[i] = dict(v, wall=v['wall'] / len(idxs))
                return
            at = v['rejected_at']
            if at is None:
                # cannot attribute: fall back to one by one
                for i in idxs:
                    out[i] = validate(traces[i], module, cfg)
                return
            acc = 0
            for k, i in enumerate(idxs):
                if at <= acc + lens[k]:
                    for j in idxs[:k]:
                        out[j] = {'accepted': True, 'wall': 0, 'states': 0, 'reason': None, 'rejected_at': None, 'event': None}
                    out[i] = dict(v, rejected_at=at - acc)
                    idxs = idxs[k + 1:]
                    break
                acc += lens[k]
            else:
                raise run.ToolError('cannot attribute rejection at event %s' % at)
    from concurrent.futures import ThreadPoolExecutor
    with ThreadPoolExecutor(6) as ex:
        list(ex.map(go, [list(range(b, min(len(traces), b + batch))) for b in range(0, len(traces), batch)]))
    return out
