"""Concretisation of abstract layouts (block -> (file, slot)) into physical data directories."""
import os
import random
import struct

from . import btc, chains, datadir, ref, run

FILENOS = [0, 1, 7, 99999, 100000, 2 ** 32 + 5, 2 ** 63, 3, 42, 65536]
NAMERS = [lambda n: 'blk%05d.dat' % n, lambda n: 'blk%d.dat' % n, lambda n: 'blk%010d.dat' % n]


def foreign_block(rng):
    """a well-formed block that is not part of the chain (never indexed)"""
    txs = [btc.coinbase(rng.randrange(1 << 20), btc.p2pkh(rng.randbytes(20)), extra=b'foreign')]
    return datadir.mk_block(rng.randbytes(32), txs, t=1300000000 + rng.randrange(10 ** 6), nonce=rng.randrange(1 << 32))


def materialise(path, blocks, placement, rng, coin='bitcoin', h0=0, decoys=(), extra_file=False, xor_key=None,
                fileno=None, namer=None, pad=True, big_offset=None):
    """placement: list (per block index) of (abstract file, slot); decoys: iterable of (abstract file, slot) holding
    foreign blocks; returns DataDir (already written)"""
    afiles = sorted({p[0] for p in placement} | {p[0] for p in decoys})
    if fileno is None:
        nums = rng.sample(FILENOS, len(afiles)) if len(afiles) <= len(FILENOS) else rng.sample(range(0, 100000), len(afiles))
        fileno = dict(zip(afiles, nums))
    namer = namer or (lambda n: rng.choice(NAMERS)(n))
    names = {}
    d = datadir.DataDir(path, coin)
    per_file = {}
    for i, (f, s) in enumerate(placement):
        per_file.setdefault(f, []).append((s, 'blk', i))
    for (f, s) in decoys:
        per_file.setdefault(f, []).append((s, 'decoy', None))
    offs = {}
    for f in afiles:
        real = fileno[f]
        if xor_key and pad and len(xor_key) >= 4 and f % 2 == 0:
            # foreign bytes in front of the first block that, once obfuscated, read as the network magic: the first bytes of a file
            # say nothing about whether it is obfuscated (xor.dat does)
            d.raw(real, bytes(a ^ b for a, b in zip(struct.pack('<I', d.magic), xor_key[:4])) + rng.randbytes(12))
        for s, kind, i in sorted(per_file.get(f, [])):
            if pad:
                g = rng.randbytes(rng.choice([0, 0, 1, 3, 17, 64]))
                if rng.random() < 0.2:
                    g += struct.pack('<I', d.magic) + rng.randbytes(3)   # magic lookalike inside garbage
                d.raw(real, g)
            if big_offset and kind == 'blk' and i == big_offset[0]:
                d.raw(real, b'', at=big_offset[1] - 8)
                d.ends[real] = big_offset[1] - 8
            if kind == 'blk':
                # blocks[i]['size'], when present, is the length prefix to store (it is reported, not used for decoding)
                offs[i] = d.place(real, blocks[i]['raw'], size=blocks[i].get('size'))
            else:
                fb = foreign_block(rng)
                d.place(real, fb['raw'])
        if pad and rng.random() < 0.5:
            d.raw(real, rng.randbytes(rng.randrange(1, 40)))
    for i, b in enumerate(blocks):
        # real post-segwit records also carry BLOCK_OPT_WITNESS (128): the status then needs a two-byte VarInt
        d.record(b['hdr'], h0 + i, datadir.ACTIVE | (btc.OPT_WITNESS if rng.random() < 0.5 else 0), len(b['txs']), fileno[placement[i][0]], offs[i],
                 undo=rng.choice([0, 9, 2 ** 20, 2 ** 31]))
    if extra_file:
        x = max(fileno.values()) + 1 + rng.randrange(5)
        d.raw(x, rng.randbytes(50))
        d.place(x, foreign_block(rng)['raw'])
        d.extra_files['blkindex.dat'] = b'not a block file'
        d.extra_files['rev00000.dat'] = rng.randbytes(30)
        d.extra_files['blkx1.dat'] = rng.randbytes(30)
        # files whose names merely resemble those of indexed blk files (backups and the like) are named by no record either
        for real in list(fileno.values())[:4]:
            for nm in ('blk%05d.bak.dat' % real, 'blk%05d.dat.dat' % real, 'blk%d.5.dat' % real, 'blk%05d.dat.bak' % real, 'xblk%05d.dat' % real):
                d.extra_files[nm] = struct.pack('<II', d.magic, 81) + foreign_block(rng)['raw'] + rng.randbytes(200)
    d.core_extras()
    used = {}

    def nm(n):
        if n not in used:
            used[n] = namer(n)
        return used[n]
    d.write(xor_key=xor_key, name=nm)
    d.fileno = fileno
    d.offs = offs
    return d


def run_csv(w, d, coin, start, end, trace=None, h0=0, nofile=None, threads=None, cb='csvdump'):
    s = (h0 + start) if (h0 or start) else None
    e = None if end in (None, -1) else h0 + end
    dump = w.mk('out') if cb in ('csvdump', 'unspentcsvdump', 'balances') else None
    return run.run_parser(d.path, cb, dump=dump, coin=coin, start=s, end=e, trace=trace, skip='spend,create,eval,dump_row,bal_row',
                          nofile=nofile, threads=threads)


def expected_csv(blocks, heights, coin, h0=0):
    exp, tot = ref.csv_expected([(h0 + h, blocks[h]) for h in heights], coin)
    return exp


def compare_csv(r, exp, start, last):
    """-> list of problems"""
    probs = []
    for f in ('blocks', 'transactions', 'tx_in', 'tx_out'):
        name = '%s-%d-%d.csv' % (f, start, last)
        got = r.files.get(name)
        if got is None:
            probs.append('missing %s (have %s)' % (name, r.listing))
        elif got != exp[f]:
            gl, el = got.splitlines(), exp[f].splitlines()
            k = next((i for i in range(min(len(gl), len(el))) if gl[i] != el[i]), min(len(gl), len(el)))
            probs.append('%s differs from the reference at row %d: got %r expected %r' % (
                name, k, gl[k][:150] if k < len(gl) else None, el[k][:150] if k < len(el) else None))
    return probs


def random_placement(rng, n, nfiles, mode):
    """modes: disjoint (consecutive heights per file), interleaved (round robin), random, reversed (physical order
    opposite to height order)"""
    if mode == 'disjoint':
        per = max(1, (n + nfiles - 1) // nfiles)
        return [(h // per, h % per) for h in range(n)]
    if mode == 'interleaved':
        return [(h % nfiles, h // nfiles) for h in range(n)]
    if mode == 'reversed':
        per = max(1, (n + nfiles - 1) // nfiles)
        return [(h // per, per - 1 - (h % per)) for h in range(n)]
    slots = {}
    out = []
    for h in range(n):
        f = rng.randrange(nfiles)
        slots[f] = slots.get(f, 0) + 1
        out.append((f, rng.random()))      # random physical order inside the file
    return out
