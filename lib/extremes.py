"""Chains whose counts and sizes lie beyond 8/16-bit (and some 24-bit) boundaries; every field is a 32/64-bit quantity on the wire.
Shared by the checks that compare complete outputs with the reference (C01 csvdump, C15 simplestats)."""
import random

from . import btc, datadir


def wide_chain(seed, coin='bitcoin', ntx=66000):
    """4 blocks: [coinbase], [coinbase + ntx minimal transactions], [wide transactions], [coinbase]"""
    r0 = random.Random('extremes-%s' % seed)
    spk = btc.p2pkh(r0.randbytes(20))
    blocks, prev = [], b'\0' * 32

    def add(h, txs):
        nonlocal prev
        b = datadir.mk_block(prev, txs, t=1300000000 + 600 * h, nonce=h)
        blocks.append(b)
        prev = b['hash']
    add(0, [btc.coinbase(0, spk)])
    many = [btc.coinbase(1, spk)]
    for k in range(ntx):
        many.append({'ver': 1, 'ins': [{'txid': k.to_bytes(4, 'little') * 8, 'idx': k, 'sig': b'', 'seq': k}],
                     'outs': [{'val': k, 'spk': b'\x51' if k % 1000 else spk}], 'lock': k})
    add(1, many)
    wide_in = {'ver': 1, 'ins': [{'txid': r0.randbytes(32), 'idx': i, 'sig': b'', 'seq': 0} for i in range(65600)],
               'outs': [{'val': 9, 'spk': spk}], 'lock': 2}
    wide_out = {'ver': 1, 'ins': [{'txid': r0.randbytes(32), 'idx': 0, 'sig': b'\x01\x01', 'seq': 0}],
                'outs': [{'val': i, 'spk': spk if i in (0, 255, 256, 65535, 65536, 65599) else b'\x6a'} for i in range(65600)], 'lock': 3}
    wide_wit = {'ver': 2, 'ins': [{'txid': r0.randbytes(32), 'idx': 1, 'sig': b'', 'seq': 1, 'wit': [b'\x01'] * 65600},
                                  {'txid': r0.randbytes(32), 'idx': 2, 'sig': b'', 'seq': 2, 'wit': [r0.randbytes(70000), b'', r0.randbytes(300)]}],
                'outs': [{'val': 5, 'spk': b'\x00\x14' + r0.randbytes(20)}], 'lock': 4}
    fat_script = {'ver': 1, 'ins': [{'txid': r0.randbytes(32), 'idx': 3, 'sig': r0.randbytes(66000), 'seq': 3}],
                  'outs': [{'val': 6, 'spk': b'\x6a' + btc.push(r0.randbytes(66000))}, {'val': 7, 'spk': spk}], 'lock': 5}
    add(2, [btc.coinbase(2, spk), wide_in, wide_out, wide_wit, fat_script])
    add(3, [btc.coinbase(3, spk)])
    return blocks


# heights at which some consensus rule, soft fork or historical accident of a Bitcoin-family chain sits: a parser has no rule
# that depends on the height (except the reward schedule of simplestats), so chains indexed around them behave like any other
SPECIAL_HEIGHTS = [19200,                                   # namecoin: merged mining
                   91722, 91812, 91842, 91880,              # the two duplicated coinbases (BIP30) and their repeats
                   173805, 227931, 363725, 388381, 419328,  # BIP16, BIP34, BIP66, BIP65, CSV
                   209999, 210000, 420000, 630000, 840000,  # halvings
                   371337,                                  # dogecoin: AuxPoW
                   478558, 481824, 504031, 709632,          # BCH split, segwit, segwit2x, taproot
                   1201536, 1320000]                        # litecoin segwit, namecoin segwit


def special_height_chain(h, coin='bitcoin', seed=0):
    """three ordinary blocks to be indexed at h-1, h, h+1: coinbase (with an addressed and a data output), a payment spending the
    previous block's coinbase, a duplicate-looking coinbase script"""
    r0 = random.Random('special-%s-%d-%s' % (coin, h, seed))
    spk = btc.p2pkh(r0.randbytes(20))
    blocks, prev, last_cb = [], r0.randbytes(32), None
    for k in range(3):
        cb = btc.coinbase(h - 1 + k, None, outs=[{'val': 50 * 10 ** 8 + k, 'spk': spk}, {'val': 0, 'spk': b'\x6a' + btc.push(b'at %d' % (h - 1 + k))}])
        txs = [cb]
        if last_cb is not None:
            # (the coinbase of the middle block stays unspent: the last block spends the middle block's payment instead)
            txs.append({'ver': 1, 'ins': [{'txid': btc.txid(last_cb), 'idx': 0 if k == 1 else 1, 'sig': b'\x01\x01', 'seq': 0xffffffff}],
                        'outs': [{'val': 49 * 10 ** 8, 'spk': btc.p2pkh(r0.randbytes(20))}, {'val': 10 ** 8 - 1000, 'spk': spk}], 'lock': 0})
        b = datadir.mk_block(prev, txs, t=1300000000 + 600 * k, nonce=k)
        blocks.append(b)
        prev, last_cb = b['hash'], (cb if k == 0 else txs[-1])
    return blocks
