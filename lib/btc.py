"""Encoders for Bitcoin-family on-disk structures (trusted base; never parses).

Everything the specification treats as opaque identity or byte rendering lives here:
hashes, CompactSize, Core VarInt, transactions, headers, AuxPoW sections, index records,
Base58Check, Bech32/Bech32m.
"""
import hashlib
import struct


def sha256d(b):
    return hashlib.sha256(hashlib.sha256(b).digest()).digest()


def _ripemd160_py(msg):
    # pure-python fallback (only used if OpenSSL lacks ripemd160)
    def rol(x, n):
        return ((x << n) | (x >> (32 - n))) & 0xffffffff
    K1 = [0, 0x5A827999, 0x6ED9EBA1, 0x8F1BBCDC, 0xA953FD4E]
    K2 = [0x50A28BE6, 0x5C4DD124, 0x6D703EF3, 0x7A6D76E9, 0]
    R1 = [0, 1, 2, 3, 4, 5, 6, 7, 8, 9, 10, 11, 12, 13, 14, 15, 7, 4, 13, 1, 10, 6, 15, 3, 12, 0, 9, 5, 2, 14, 11, 8,
          3, 10, 14, 4, 9, 15, 8, 1, 2, 7, 0, 6, 13, 11, 5, 12, 1, 9, 11, 10, 0, 8, 12, 4, 13, 3, 7, 15, 14, 5, 6, 2,
          4, 0, 5, 9, 7, 12, 2, 10, 14, 1, 3, 8, 11, 6, 15, 13]
    R2 = [5, 14, 7, 0, 9, 2, 11, 4, 13, 6, 15, 8, 1, 10, 3, 12, 6, 11, 3, 7, 0, 13, 5, 10, 14, 15, 8, 12, 4, 9, 1, 2,
          15, 5, 1, 3, 7, 14, 6, 9, 11, 8, 12, 2, 10, 0, 4, 13, 8, 6, 4, 1, 3, 11, 15, 0, 5, 12, 2, 13, 9, 7, 10, 14,
          12, 15, 10, 4, 1, 5, 8, 7, 6, 2, 13, 14, 0, 3, 9, 11]
    S1 = [11, 14, 15, 12, 5, 8, 7, 9, 11, 13, 14, 15, 6, 7, 9, 8, 7, 6, 8, 13, 11, 9, 7, 15, 7, 12, 15, 9, 11, 7, 13, 12,
          11, 13, 6, 7, 14, 9, 13, 15, 14, 8, 13, 6, 5, 12, 7, 5, 11, 12, 14, 15, 14, 15, 9, 8, 9, 14, 5, 6, 8, 6, 5, 12,
          9, 15, 5, 11, 6, 8, 13, 12, 5, 12, 13, 14, 11, 8, 5, 6]
    S2 = [8, 9, 9, 11, 13, 15, 15, 5, 7, 7, 8, 11, 14, 14, 12, 6, 9, 13, 15, 7, 12, 8, 9, 11, 7, 7, 12, 7, 6, 15, 13, 11,
          9, 7, 15, 11, 8, 6, 6, 14, 12, 13, 5, 14, 13, 13, 7, 5, 15, 5, 8, 11, 14, 14, 6, 14, 6, 9, 12, 9, 12, 5, 15, 8,
          8, 5, 12, 9, 12, 5, 14, 6, 8, 13, 6, 5, 15, 13, 11, 11]

    def f(j, x, y, z):
        if j < 16: return x ^ y ^ z
        if j < 32: return (x & y) | (~x & 0xffffffff & z)
        if j < 48: return (x | (~y & 0xffffffff)) ^ z
        if j < 64: return (x & z) | (y & (~z & 0xffffffff))
        return x ^ (y | (~z & 0xffffffff))
    h = [0x67452301, 0xEFCDAB89, 0x98BADCFE, 0x10325476, 0xC3D2E1F0]
    ml = len(msg) * 8
    msg = msg + b'\x80' + b'\0' * ((55 - len(msg)) % 64) + struct.pack('<Q', ml)
    for off in range(0, len(msg), 64):
        X = struct.unpack('<16I', msg[off:off + 64])
        a1, b1, c1, d1, e1 = h
        a2, b2, c2, d2, e2 = h
        for j in range(80):
            t = (rol((a1 + f(j, b1, c1, d1) + X[R1[j]] + K1[j // 16]) & 0xffffffff, S1[j]) + e1) & 0xffffffff
            a1, e1, d1, c1, b1 = e1, d1, rol(c1, 10), b1, t
            t = (rol((a2 + f(79 - j, b2, c2, d2) + X[R2[j]] + K2[j // 16]) & 0xffffffff, S2[j]) + e2) & 0xffffffff
            a2, e2, d2, c2, b2 = e2, d2, rol(c2, 10), b2, t
        t = (h[1] + c1 + d2) & 0xffffffff
        h = [t, (h[2] + d1 + e2) & 0xffffffff, (h[3] + e1 + a2) & 0xffffffff,
             (h[4] + a1 + b2) & 0xffffffff, (h[0] + b1 + c2) & 0xffffffff]
    return struct.pack('<5I', *h)


try:
    hashlib.new('ripemd160', b'')

    def ripemd160(b):
        return hashlib.new('ripemd160', b).digest()
except Exception:  # pragma: no cover
    ripemd160 = _ripemd160_py


def hash160(b):
    return ripemd160(hashlib.sha256(b).digest())


def hexrev(h):
    """display form of a 32-byte hash (byte-reversed lowercase hex)"""
    return h[::-1].hex()


# ---- CompactSize -------------------------------------------------------------------------

def cs(n, width=None):
    """CompactSize; width in {1,3,5,9} forces a (possibly non-canonical) encoding class"""
    if width is None:
        width = 1 if n < 0xfd else 3 if n <= 0xffff else 5 if n <= 0xffffffff else 9
    if width == 1:
        assert n < 0xfd
        return bytes([n])
    if width == 3:
        return b'\xfd' + struct.pack('<H', n)
    if width == 5:
        return b'\xfe' + struct.pack('<I', n)
    return b'\xff' + struct.pack('<Q', n)


# ---- transactions ------------------------------------------------------------------------

def ser_tx(tx, witness=True):
    """tx = dict(ver, ins=[dict(txid, idx, sig, seq, wit=[items]|None)], outs=[dict(val, spk)], lock,
    segwit=bool|None).  Optional raw CompactSize widths: tx['w_in'], tx['w_out'], in['w'], out['w']."""
    seg = tx.get('segwit')
    if seg is None:
        seg = any(i.get('wit') for i in tx['ins'])
    seg = seg and witness
    parts = [struct.pack('<I', tx['ver'])]
    if seg:
        parts.append(b'\x00\x01')
    parts.append(cs(len(tx['ins']), tx.get('w_in')))
    for i in tx['ins']:
        parts += [i['txid'], struct.pack('<I', i['idx']), cs(len(i['sig']), i.get('w')), i['sig'], struct.pack('<I', i['seq'])]
    parts.append(cs(len(tx['outs']), tx.get('w_out')))
    for o in tx['outs']:
        parts += [struct.pack('<Q', o['val']), cs(len(o['spk']), o.get('w')), o['spk']]
    if seg:
        for i in tx['ins']:
            w = i.get('wit') or []
            parts.append(cs(len(w)))
            for it in w:
                parts += [cs(len(it)), it]
    parts.append(struct.pack('<I', tx['lock']))
    return b''.join(parts)


def txid(tx):
    return sha256d(ser_tx(tx, False))


def merkle(hs):
    hs = list(hs)
    assert hs
    while len(hs) > 1:
        if len(hs) % 2:
            hs.append(hs[-1])
        hs = [sha256d(hs[i] + hs[i + 1]) for i in range(0, len(hs), 2)]
    return hs[0]


def header(ver, prev, mr, t, bits, nonce):
    return struct.pack('<I', ver) + prev + mr + struct.pack('<III', t, bits, nonce)


def coinbase(height, spk, val=50 * 10 ** 8, extra=b'', outs=None):
    return {'ver': 1,
            'ins': [{'txid': b'\0' * 32, 'idx': 0xffffffff, 'sig': struct.pack('<I', height & 0xffffffff) + extra, 'seq': 0xffffffff}],
            'outs': outs if outs is not None else [{'val': val, 'spk': spk}], 'lock': 0}


def auxpow(parent_cb, parent_hash, cb_branch, cb_mask, chain_branch, chain_mask, parent_header):
    b = ser_tx(parent_cb) + parent_hash
    b += cs(len(cb_branch)) + b''.join(cb_branch) + struct.pack('<I', cb_mask)
    b += cs(len(chain_branch)) + b''.join(chain_branch) + struct.pack('<I', chain_mask)
    return b + parent_header


def ser_block(hdr, txs, aux=None, w_ntx=None):
    return hdr + (aux or b'') + cs(len(txs), w_ntx) + b''.join(ser_tx(t) for t in txs)


# ---- scripts -----------------------------------------------------------------------------

def push(data, form=None):
    """form: None=minimal direct/PUSHDATA, 'd' direct, 1|2|4 = PUSHDATAn"""
    n = len(data)
    if form is None:
        form = 'd' if 0 < n <= 75 else 1 if n <= 255 else 2 if n <= 65535 else 4
        if n == 0:
            return b'\x00'
    if form == 'd':
        assert n <= 75
        return bytes([n]) + data
    if form == 1:
        return b'\x4c' + bytes([n]) + data
    if form == 2:
        return b'\x4d' + struct.pack('<H', n) + data
    return b'\x4e' + struct.pack('<I', n) + data


def p2pkh(h):
    return b'\x76\xa9\x14' + h + b'\x88\xac'


def p2sh(h):
    return b'\xa9\x14' + h + b'\x87'


def p2pk(key):
    return bytes([len(key)]) + key + b'\xac'


# ---- Base58Check / Bech32 ------------------------------------------------------------------

_B58 = '123456789ABCDEFGHJKLMNPQRSTUVWXYZabcdefghijkmnopqrstuvwxyz'


def b58encode(b):
    n = int.from_bytes(b, 'big')
    s = ''
    while n:
        n, r = divmod(n, 58)
        s = _B58[r] + s
    pad = len(b) - len(b.lstrip(b'\0'))
    return '1' * pad + s


def b58decode(s):
    n = 0
    for c in s:
        n = n * 58 + _B58.index(c)
    pad = len(s) - len(s.lstrip('1'))
    body = n.to_bytes((n.bit_length() + 7) // 8, 'big') if n else b''
    return b'\0' * pad + body


def b58check(payload):
    return b58encode(payload + sha256d(payload)[:4])


def b58check_decode(s):
    raw = b58decode(s)
    body, chk = raw[:-4], raw[-4:]
    if sha256d(body)[:4] != chk:
        raise ValueError('bad checksum')
    return body


_BC = 'qpzry9x8gf2tvdw0s3jn54khce6mua7l'


def _polymod(values):
    gen = [0x3b6a57b2, 0x26508e6d, 0x1ea119fa, 0x3d4233dd, 0x2a1462b3]
    chk = 1
    for v in values:
        b = chk >> 25
        chk = (chk & 0x1ffffff) << 5 ^ v
        for i in range(5):
            chk ^= gen[i] if ((b >> i) & 1) else 0
    return chk


def _hrp_expand(hrp):
    return [ord(x) >> 5 for x in hrp] + [0] + [ord(x) & 31 for x in hrp]


def _convertbits(data, frombits, tobits, pad=True):
    acc = 0
    bits = 0
    ret = []
    maxv = (1 << tobits) - 1
    for value in data:
        acc = (acc << frombits) | value
        bits += frombits
        while bits >= tobits:
            bits -= tobits
            ret.append((acc >> bits) & maxv)
    if pad:
        if bits:
            ret.append((acc << (tobits - bits)) & maxv)
    elif bits >= frombits or ((acc << (tobits - bits)) & maxv):
        return None
    return ret


def segwit_addr(hrp, witver, prog):
    const = 1 if witver == 0 else 0x2bc830a3
    data = [witver] + _convertbits(prog, 8, 5)
    values = _hrp_expand(hrp) + data
    pm = _polymod(values + [0] * 6) ^ const
    chk = [(pm >> 5 * (5 - i)) & 31 for i in range(6)]
    return hrp + '1' + ''.join(_BC[d] for d in data + chk)


def segwit_decode(addr):
    hrp, _, rest = addr.rpartition('1')
    data = [_BC.index(c) for c in rest]
    pm = _polymod(_hrp_expand(hrp) + data)
    witver = data[0]
    if pm != (1 if witver == 0 else 0x2bc830a3):
        raise ValueError('bad bech32 checksum')
    prog = _convertbits(data[1:-6], 5, 8, False)
    if prog is None:
        raise ValueError('bad padding')
    return hrp, witver, bytes(prog)


# ---- Bitcoin Core block index --------------------------------------------------------------

def core_varint(n):
    tmp = []
    while True:
        tmp.append((n & 0x7f) | (0x80 if tmp else 0))
        if n <= 0x7f:
            break
        n = (n >> 7) - 1
    return bytes(reversed(tmp))


VALID_HEADER, VALID_TREE, VALID_TX, VALID_CHAIN, VALID_SCRIPTS = 1, 2, 3, 4, 5
HAVE_DATA, HAVE_UNDO, FAILED_VALID, FAILED_CHILD, OPT_WITNESS = 8, 16, 32, 64, 128


def index_record(ver, height, status, ntx, nfile, datapos, undopos, hdr):
    b = core_varint(ver) + core_varint(height) + core_varint(status) + core_varint(ntx)
    if status & (HAVE_DATA | HAVE_UNDO):
        b += core_varint(nfile)
    if status & HAVE_DATA:
        b += core_varint(datapos)
    if status & HAVE_UNDO:
        b += core_varint(undopos)
    return b + hdr


_lookalikes = None


def lookalike_payloads():
    global _lookalikes
    if _lookalikes is None:
        _lookalikes = _find_lookalikes()
    return _lookalikes


def _find_lookalikes():
    """payloads whose Base58Check form under some version byte BEGINS like an address of another kind ('bc1' / 'tb1' as if it were
    segwit, with upper-case letters further on; '1' / '3' under a fork coin's version): to a fork coin's template matcher any
    non-empty push is a hash.  -> [(version, payload)]"""
    def val(t):
        n = 0
        for ch in t:
            n = n * 58 + _B58.index(ch)
        return n
    out = []
    for version in (5, 0x30, 0x1e, 0x34, 0x32, 0x82, 0x35):
        for prefix in ('bc1', 'tb1', '1', '3'):
            for ln in (1, 2, 3, 4, 5, 8, 19, 21):
                total = 1 + ln + 4
                for n in range(len(prefix), 40):
                    lo, hi = val(prefix + '1' * (n - len(prefix))), val(prefix + 'z' * (n - len(prefix)))
                    a, b = max(lo, version << (8 * (total - 1))), min(hi, ((version + 1) << (8 * (total - 1))) - 1)
                    if a > b:
                        continue
                    pa, pb_ = (a >> 32) & ((1 << (8 * ln)) - 1), (b >> 32) & ((1 << (8 * ln)) - 1)
                    found = 0
                    for k in range(400):
                        cand = pa + 1 + (pb_ - pa) * k // 400 if pb_ > pa else pa + k
                        pb = (cand % (1 << (8 * ln))).to_bytes(ln, 'big')
                        addr = b58check(bytes([version]) + pb)
                        if addr.startswith(prefix) and (len(prefix) == 1 or any(c.isupper() for c in addr)):
                            out.append((version, pb))
                            found += 1
                            if found == 2:
                                break
    return out


# ---- secp256k1 (only to obtain real curve points; nothing here is used as an oracle for the parser) -------------------
_P = 2 ** 256 - 2 ** 32 - 977
_G = (0x79BE667EF9DCBBAC55A06295CE870B07029BFCDB2DCE28D959F2815B16F81798, 0x483ADA7726A3C4655DA4FBFC0E1108A8FD17B448A68554199C47D08FFB10D4B8)


def _ec_add(a, b):
    if a is None:
        return b
    if b is None:
        return a
    if a[0] == b[0] and (a[1] + b[1]) % _P == 0:
        return None
    if a == b:
        lam = 3 * a[0] * a[0] * pow(2 * a[1], -1, _P) % _P
    else:
        lam = (b[1] - a[1]) * pow(b[0] - a[0], -1, _P) % _P
    x = (lam * lam - a[0] - b[0]) % _P
    return x, (lam * (a[0] - x) - a[1]) % _P


def ec_point(k):
    """k*G for the scalar k"""
    r, q = None, _G
    while k:
        if k & 1:
            r = _ec_add(r, q)
        q = _ec_add(q, q)
        k >>= 1
    return r


def pubkey_encodings(k):
    """all serialisations of the public key k*G found in scripts: compressed, uncompressed, hybrid (06/07, parity of y),
    and a hybrid prefix contradicting the parity (not a valid encoding, still just 65 pushed bytes)"""
    x, y = ec_point(k)
    xb, yb = x.to_bytes(32, 'big'), y.to_bytes(32, 'big')
    return {'compressed': bytes([2 + (y & 1)]) + xb, 'uncompressed': b'\x04' + xb + yb, 'hybrid': bytes([6 + (y & 1)]) + xb + yb,
            'hybrid_wrong_parity': bytes([7 - (y & 1)]) + xb + yb}


# ---- coins -------------------------------------------------------------------------------
# published parameters, independent of /repo/src/blockchain/parser/types.rs
COINS = {
    'bitcoin': dict(magic=0xd9b4bef9, ver=0x00, hrp='bc', p2sh=0x05, aux=None),
    'testnet3': dict(magic=0x0709110b, ver=0x6f, hrp='tb', p2sh=0xc4, aux=None),
    'namecoin': dict(magic=0xfeb4bef9, ver=0x34, aux=0x10101),
    'litecoin': dict(magic=0xdbb6c0fb, ver=0x30, aux=None),
    'dogecoin': dict(magic=0xc0c0c0c0, ver=0x1e, aux=0x620102),
    'myriadcoin': dict(magic=0xee7645af, ver=0x32, aux=None),
    'unobtanium': dict(magic=0x03b5d503, ver=0x82, aux=None),
    'noteblockchain': dict(magic=0xe3ede5f4, ver=0x35, aux=None),
}
FORK_COINS = [c for c in COINS if c not in ('bitcoin', 'testnet3')]

_SATOSHI_KEY = bytes.fromhex('04678afdb0fe5548271967f1a67130b7105cd6a828e03909a67962e0ea1f61deb649f6bc3f4cef38c4f35504e51ec112de5c384df7ba0b8d578a4c702b6bf11d5f')
_LTC_KEY = bytes.fromhex('040184710fa689ad5023690c80f3a49c8f13f8d45b8c857fbcbc8bc4a8e4d3eb4b10f4d4604fa08dce601aaf0f470216fe1b51850b4acf21b179c45070ac7b03a9')


def _genesis(text, key, coins, bits, t, nonce, ver=1, prefix=bytes.fromhex('04ffff001d0104')):
    txt = text.encode('utf-8') if isinstance(text, str) else text
    sig = prefix + push(txt)
    tx = {'ver': 1, 'ins': [{'txid': b'\0' * 32, 'idx': 0xffffffff, 'sig': sig, 'seq': 0xffffffff}],
          'outs': [{'val': coins * 10 ** 8, 'spk': p2pk(key)}], 'lock': 0}
    hdr = header(ver, b'\0' * 32, txid(tx), t, bits, nonce)
    return hdr, [tx]


def genesis_block(coin):
    """(header, txs) of the real genesis block, reconstructed from public parameters; None if unknown"""
    times = "The Times 03/Jan/2009 Chancellor on brink of second bailout for banks"
    if coin == 'bitcoin':
        return _genesis(times, _SATOSHI_KEY, 50, 0x1d00ffff, 1231006505, 2083236893)
    if coin == 'testnet3':
        return _genesis(times, _SATOSHI_KEY, 50, 0x1d00ffff, 1296688602, 414098458)
    if coin == 'litecoin':
        return _genesis("NY Times 05/Oct/2011 Steve Jobs, Apple’s Visionary, Dies at 56", _LTC_KEY, 50, 0x1e0ffff0,
                        1317972665, 2084524493)
    if coin == 'dogecoin':
        return _genesis("Nintondo", _LTC_KEY, 88, 0x1e0ffff0, 1386325540, 99943)
    return None


GENESIS_HASH = {
    'bitcoin': '000000000019d6689c085ae165831e934ff763ae46a2a6c172b3f1b60a8ce26f',
    'testnet3': '000000000933ea01ad0ee984209779baaec3ced90fa3f408719526f8d77f4943',
    'namecoin': '000000000062b72c5e2ceb45fbc8587e807c155b0da735e6483dfba2f0a9c770',
    'litecoin': '12a765e31ffd4059bada1e25190f6e98c99d9714d334efa41a195a7e7e04bfe2',
    'dogecoin': '1a91e3dace36e2be3bf030a65679fe821aa1d6ef92e7c9902eb318182c355691',
    'myriadcoin': '00000ffde4c020b5938441a0ea3d314bf619eff0b38f32f78f7583cffa1ea485',
    'unobtanium': '000004c2fc5fffb810dccc197d603690099a68305232e552d96ccbe8e2c52b75',
    'noteblockchain': '270f3e7b185c412d57ba913d10658df54f15201a67d736cb4071a4ec4eb54836',
}


def selftest():
    assert hash160(b'').hex() == 'b472a266d0bd89c13706a4132ccfb16f7c3b9fcb'
    assert _ripemd160_py(b'abc').hex() == '8eb208f7e05d987a9b044a8e98c6b087f15a0bfc'
    assert ripemd160(b'abc').hex() == '8eb208f7e05d987a9b044a8e98c6b087f15a0bfc'
    assert b58check(b'\x00' + bytes.fromhex('62e907b15cbf27d5425399ebf6f0fb50ebb88f18')) == '1A1zP1eP5QGefi2DMPTfTL5SLmv7DivfNa'
    assert b58check_decode('1A1zP1eP5QGefi2DMPTfTL5SLmv7DivfNa')[1:].hex() == '62e907b15cbf27d5425399ebf6f0fb50ebb88f18'
    # BIP173 / BIP350 vectors
    assert segwit_addr('bc', 0, bytes.fromhex('751e76e8199196d454941c45d1b3a323f1433bd6')) == 'bc1qw508d6qejxtdg4y5r3zarvary0c5xw7kv8f3t4'
    assert segwit_addr('tb', 0, bytes.fromhex('1863143c14c5166804bd19203356da136c985678cd4d27a1b8c6329604903262')) == \
        'tb1qrp33g0q5c5txsp9arysrx4k6zdkfs4nce4xj0gdcccefvpysxf3q0sl5k7'
    assert segwit_addr('bc', 1, bytes.fromhex('751e76e8199196d454941c45d1b3a323f1433bd6751e76e8199196d454941c45d1b3a323f1433bd6')) == \
        'bc1pw508d6qejxtdg4y5r3zarvary0c5xw7kw508d6qejxtdg4y5r3zarvary0c5xw7kt5nd6y'
    assert segwit_addr('bc', 16, bytes.fromhex('751e')) == 'bc1sw50qgdz25j'
    assert segwit_decode('bc1sw50qgdz25j') == ('bc', 16, bytes.fromhex('751e'))
    assert core_varint(0) == b'\x00' and core_varint(127) == b'\x7f' and core_varint(128) == b'\x80\x00'
    assert core_varint(16511) == b'\xff\x7f' and core_varint(16512) == b'\x80\x80\x00'
    for c in ('bitcoin', 'testnet3', 'litecoin', 'dogecoin'):
        hdr, _ = genesis_block(c)
        assert hexrev(sha256d(hdr)) == GENESIS_HASH[c], c
    return True


if __name__ == '__main__':
    print(selftest())
