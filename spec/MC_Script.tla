------------------------------ MODULE MC_Script ------------------------------
(* Bounded universes for Script.tla: all item sequences up to length L over the alphabet, the complete one-item    *)
(* neighbourhood (substitution, insertion, deletion, truncation, extension) of every template, witness versions    *)
(* x program lengths, and m-of-n multisig shapes.                                                                  *)
EXTENDS Script

CONSTANTS L

OpNames == {"DUP", "HASH160", "EQUALVERIFY", "CHECKSIG", "EQUAL", "RETURN", "CHECKMULTISIG", "OP0", "N1", "N2", "N3", "N16",
            "NOP", "NOP4", "RESERVED", "VERIF", "CAT", "HIGH", "INVALID", "ADD", "NEG1"}
Ops == {Op(n) : n \in OpNames}
Pushes == {Push("d", l) : l \in {1, 2, 20, 32, 33, 40, 65, 75}} \cup {Push("p1", l) : l \in {0, 20, 33, 76, 80, 255}}
          \cup {Push("p2", l) : l \in {0, 20, 256}} \cup {Push("p4", l) : l \in {0, 20}}
Truncs == {Trunc(f, w) : f \in {"d", "p1", "p2", "p4"}, w \in {"nolen", "short"}} \ {Trunc("d", "nolen")}
Alphabet == Ops \cup Pushes
SmallAlphabet == {Op(n) : n \in {"DUP", "HASH160", "CHECKSIG", "EQUAL", "RETURN", "CHECKMULTISIG", "OP0", "N1", "N2", "NOP", "RESERVED", "ADD"}}
                 \cup {Push("d", 20), Push("d", 33), Push("d", 32), Push("p1", 20), Push("p1", 0), Push("p1", 80), Push("p2", 256)}

SeqsOver(A, n) == UNION {[1..k -> A] : k \in 0..n}
\* complete scripts possibly ending in a truncated push
WithTrunc(S) == S \cup {Append(x, t) : x \in {y \in S : Len(y) < L}, t \in Truncs}

K33 == Push("d", 33)
Templates == {<<Op("DUP"), Op("HASH160"), Push("d", 20), Op("EQUALVERIFY"), Op("CHECKSIG")>>,
              <<K33, Op("CHECKSIG")>>, <<Push("d", 65), Op("CHECKSIG")>>,
              <<Op("HASH160"), Push("d", 20), Op("EQUAL")>>,
              <<Op("OP0"), Push("d", 20)>>, <<Op("OP0"), Push("d", 32)>>, <<Op("N1"), Push("d", 32)>>, <<Op("N16"), Push("d", 40)>>,
              <<Op("RETURN"), Push("d", 20)>>, <<Op("RETURN"), Push("p1", 80)>>,
              <<Op("N2"), K33, K33, K33, Op("N3"), Op("CHECKMULTISIG")>>,
              <<Op("N1"), K33, Op("N1"), Op("CHECKMULTISIG")>>}

Subst(x) == {[x EXCEPT ![j] = a] : j \in DOMAIN x, a \in Alphabet}
Insert(x) == {SubSeq(x, 1, j) \o <<a>> \o SubSeq(x, j + 1, Len(x)) : j \in 0..Len(x), a \in Alphabet}
Delete(x) == {SubSeq(x, 1, j - 1) \o SubSeq(x, j + 1, Len(x)) : j \in DOMAIN x}
Cut(x) == {Append(SubSeq(x, 1, j), t) : j \in 0..(Len(x) - 1), t \in Truncs}
Neighbourhood == UNION {Subst(x) \cup Insert(x) \cup Delete(x) \cup Cut(x) \cup {x} : x \in Templates}

\* witness programs: every version OP_0, OP_1..OP_16 (and OP_1NEGATE) x program lengths 1..41 and 75
NNames == {"N1", "N2", "N3", "N4", "N5", "N6", "N7", "N8", "N9", "N10", "N11", "N12", "N13", "N14", "N15", "N16"}
WitLens == (1..41) \cup {75}
Witness == {<<Op(v), Push("d", n)>> : v \in NNames \cup {"OP0", "NEG1"}, n \in WitLens}
\* m-of-n shapes: m, n over OP_0 / numbers / a non-number with 0..3 keys of several forms ...
KeySeqs == UNION {[1..k -> {K33, Push("d", 65), Push("d", 20), Push("p1", 33), Op("OP0")}] : k \in 0..3}
Multisigs == {<<Op(m)>> \o ks \o <<Op(n), Op("CHECKMULTISIG")>> : m \in {"OP0", "N1", "N2", "N3", "N16"}, n \in {"OP0", "N1", "N2", "N3", "N16", "DUP"}, ks \in KeySeqs}
\* ... and the full grid 1 <= m, n <= 16 with n-1, n, n+1 keys (m > n, wrong n included)
Grid == {<<Op(m)>> \o [i \in 1..k |-> K33] \o <<Op(n), Op("CHECKMULTISIG")>> :
           m \in NNames, n \in NNames, k \in 0..17} 
GridNear == {x \in Grid : LET n == NumOf[x[Len(x) - 1].name] IN Len(x) - 3 \in {n - 1, n, n + 1}}

UniverseQ == WithTrunc(SeqsOver(SmallAlphabet, L)) \cup SeqsOver(Alphabet, 2) \cup Neighbourhood \cup Witness \cup Multisigs \cup GridNear
UniverseT == WithTrunc(SeqsOver(Alphabet, L)) \cup SeqsOver(SmallAlphabet, 4) \cup Neighbourhood \cup Witness \cup Multisigs \cup GridNear
=============================================================================
