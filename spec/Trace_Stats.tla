----------------------------- MODULE Trace_Stats -----------------------------
(***************************************************************************)
(* Trace validation of simplestats (C15) against Stats.tla.  Events, in    *)
(* program order: cmd | stx{h,txid,cb,nin,size,vals,types} for every       *)
(* transaction | sblk{...all accumulators...} at the end of every          *)
(* on_block.  The accumulators are rebuilt from the per-transaction facts  *)
(* with the specification's TxEffect / BlockEffect / TimeEffect and must   *)
(* equal the logged ones after every block (not only in the final report). *)
(* Quantities in validated traces are below 10^9 (TLC integers).           *)
(***************************************************************************)
EXTENDS Stats, Json, IOUtils, SequencesExt

Ev == ndJsonDeserialize(IOEnv.TRACE)
N == Len(Ev)
VARIABLE l
tvars == <<vars, l>>
Is(name) == l <= N /\ Ev[l].ev = name /\ l' = l + 1
E == Ev[l]

\* base reward in satoshi: 50 coins halved every 210000 blocks (eras 0 and 1 exceed TLC's integers and the traces' values:
\* any bound above 10^9 behaves the same there)
RECURSIVE Halve(_, _)
Halve(x, k) == IF k = 0 THEN x ELSE Halve(x \div 2, k - 1)
RewardAt(h) == LET era == h \div 210000 IN IF era < 2 THEN 2000000000 ELSE IF era > 40 THEN 0 ELSE Halve(1250000000, era - 2)

TInit == Init /\ l = 1
TBegin == Is("cmd") /\ acc' = Acc0 /\ UNCHANGED <<chain, cur>>
\* is_coinbase: exactly one input and that input is the null outpoint (the logged `cb` is the code's own answer)
CbOf(e) == IF "in0_null" \in DOMAIN e THEN e.nin = 1 /\ e.in0_null ELSE e.cb
TxOf(e) == [cb |-> CbOf(e), nin |-> e.nin, size |-> e.size,
            outs |-> [i \in 1..Len(e.vals) |-> [val |-> atoi(e.vals[i]), typ |-> e.types[i]]]]
TStx == Is("stx") /\ E.cb = CbOf(E) /\ acc' = TxEffect(acc, TxOf(E), RewardAt(E.h), <<E.h, E.txid>>) /\ UNCHANGED <<chain, cur>>

Agrees(a, e) ==
  /\ a.blocks = e.blocks /\ a.txs = e.txs /\ a.ins = e.ins /\ a.outs = e.outs
  /\ a.fee = atoi(e.fee) /\ a.volume = atoi(e.volume)
  /\ IF a.bigVal.v = 0 THEN e.bigv[1] = "0" ELSE atoi(e.bigv[1]) = a.bigVal.v /\ a.bigVal.at = <<e.bigv[2], e.bigv[3]>>
  /\ IF a.bigSize.v = 0 THEN e.bigs[1] = 0 ELSE e.bigs[1] = a.bigSize.v /\ a.bigSize.at = <<e.bigs[2], e.bigs[3]>>
  /\ Len(a.sizes) = e.nsizes /\ Len(a.gaps) = e.ngaps
  /\ (e.ngaps > 0 => a.gaps[Len(a.gaps)] = e.lastgap)
  /\ {[t |-> t, n |-> a.types[t], h |-> a.first[t][1], txid |-> a.first[t][2]] : t \in DOMAIN a.types} = ToSet(e.types)
TSblk == /\ Is("sblk")
         /\ LET a2 == TimeEffect(BlockEffect(acc, E.ntx, E.size), E.time) IN Agrees(a2, E) /\ acc' = a2
         /\ UNCHANGED <<chain, cur>>
TOther == l <= N /\ Ev[l].ev \notin {"cmd", "stx", "sblk"} /\ l' = l + 1 /\ UNCHANGED vars
TNext == TBegin \/ TStx \/ TSblk \/ TOther
TSpec == TInit /\ [][TNext]_tvars
TraceAccepted == IF TLCGet("stats").diameter - 1 = N THEN TRUE
                 ELSE Print(<<"TRACE-REJECTED at event", TLCGet("stats").diameter, IF TLCGet("stats").diameter <= N THEN Ev[TLCGet("stats").diameter] ELSE "eof">>, FALSE)
=============================================================================
