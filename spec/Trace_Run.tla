----------------------------- MODULE Trace_Run -----------------------------
(***************************************************************************)
(* Trace validation of real executions against BlockParser.tla.            *)
(*                                                                         *)
(* IOEnv.TRACE names an NDJSON file: line 1 is the command the harness ran *)
(* (ev = "cmd": cb, start, end, verify), the rest are the events the       *)
(* rbp_verif hooks emitted, one per state-machine step, in program order.  *)
(* Every event is matched with the specification action it witnesses; the  *)
(* logged fields must agree with the specification's state, and every      *)
(* invariant named in Trace_Run.cfg is evaluated after every step.         *)
(* The trace is accepted iff all events are consumed (TraceAccepted).      *)
(*                                                                         *)
(* Grain: `fetched` is the composition Open . SeekRead . CloseIfLast of    *)
(* the base specification (state logged at the return of get_block);       *)
(* `idx_keep`/`idx_done` witness SelectChain; steps without an event       *)
(* (Lookup leaving the loop, CreateTmp of a callback without files,        *)
(* FinishDone) are silent.                                                 *)
(***************************************************************************)
EXTENDS BlockParser, Json, IOUtils, SequencesExt

Ev == ndJsonDeserialize(IOEnv.TRACE)
N == Len(Ev)

VARIABLES l,      \* next event to consume
          aux     \* trace-only bookkeeping: tmp files and retained records logged so far, last fetched prev
tvars == <<vars, l, aux>>

Has(e, k) == k \in DOMAIN e
IsRec(i) == Ev[i].ev = "idx_rec"

\* status bits of Bitcoin Core's nStatus
StData(st) == (st \div 8) % 2 = 1
StValid(st) == st % 8
StFailed(st) == (st \div 32) % 4 > 0

RecOf(e) == [id |-> e.hash, h |-> e.h, prev |-> (IF Has(e, "prev") THEN e.prev ELSE "?"), data |-> StData(e.status),
             valid |-> StValid(e.status), failed |-> StFailed(e.status), file |-> e.file, off |-> e.off]

\* a trace file may hold several runs back to back; each starts with its "cmd" line
SegEnd(i) == LET later == {j \in (i + 1)..N : Ev[j].ev = "cmd"} IN IF later = {} THEN N ELSE MinOf(later) - 1
Seg(i) == SubSeq(Ev, i, SegEnd(i))

\* the scenario as far as the trace determines it; what is stored at a record's place is assumed to be
\* that record's block and the `fetched` event is checked against it (C03)
TraceScenario(i) ==
  LET RecEvents == SelectSeq(Seg(i), LAMBDA e : e.ev = "idx_rec")
      FilesEv == SelectSeq(Seg(i), LAMBDA e : e.ev = "files")
  IN [recs |-> [k \in 1..Len(RecEvents) |-> RecOf(RecEvents[k])],
      store |-> {[file |-> RecEvents[k].file, off |-> RecEvents[k].off, id |-> RecEvents[k].hash] :
                    k \in {j \in 1..Len(RecEvents) : StData(RecEvents[j].status)}},
      files |-> IF Len(FilesEv) > 0 THEN ToSet(FilesEv[1].nums) ELSE {},
      facts |-> <<>>, genesis |-> "", start |-> Ev[i].start, end |-> Ev[i].end, verify |-> Ev[i].verify, cb |-> Ev[i].cb,
      limit |-> NONE, kill |-> FALSE]

Is(name) == l <= N /\ Ev[l].ev = name /\ l' = l + 1
Silent == l' = l /\ UNCHANGED aux
E == Ev[l]

TInit == Init /\ l = 1 /\ aux = [created |-> {}, keeps |-> <<>>, prev |-> "", renamed |-> {}, coin |-> "bitcoin", ino |-> 0, other |-> -1]

AuxInit == [created |-> {}, keeps |-> <<>>, prev |-> "", renamed |-> {}, coin |-> "bitcoin", ino |-> 0, other |-> -1]
TBegin == Is("cmd") /\ BeginFresh(TraceScenario(l)) /\ aux' = [AuxInit EXCEPT !.coin = IF Has(E, "coin") THEN E.coin ELSE "bitcoin"]

\* ---- construction of the callback ------------------------------------------------------------
TmpBase(name) == SubSeq(name, 1, Len(name) - 8)            \* strip ".csv.tmp"
TTmpCreate == /\ Is("tmp_create") /\ TmpBase(E.file) \in OutFiles(sc.cb)
              /\ TmpBase(E.file) \notin aux.created
              /\ aux' = [aux EXCEPT !.created = @ \cup {TmpBase(E.file)}]
              /\ IF pc = "tmp" THEN CreateTmp ELSE pc = "scan" /\ scan = 0 /\ UNCHANGED vars
TTmpSilent == pc = "tmp" /\ OutFiles(sc.cb) = {} /\ CreateTmp /\ Silent

\* ---- index ------------------------------------------------------------------------------------
TScan == /\ Is("idx_rec") /\ aux.created = OutFiles(sc.cb) /\ ScanRecord /\ UNCHANGED aux
TKeep == /\ Is("idx_keep") /\ pc = "scan" /\ scan = Len(sc.recs)
         /\ aux' = [aux EXCEPT !.keeps = Append(@, E)] /\ UNCHANGED vars
\* SelectChain must produce exactly the retained records the implementation logged (C04, C02 trimming)
TDone == /\ Is("idx_done") /\ SelectChain /\ UNCHANGED aux
         /\ pc' = "files"
         /\ maxH' = E.max_height
         /\ DOMAIN idx' = {aux.keeps[i].h : i \in DOMAIN aux.keeps}
         /\ \A i \in DOMAIN aux.keeps : LET k == aux.keeps[i] IN
               idx'[k.h].id = k.hash /\ idx'[k.h].file = k.file /\ idx'[k.h].off = k.off
TFiles == Is("files") /\ DiscoverFiles /\ UNCHANGED aux

\* ---- driver loop ------------------------------------------------------------------------------
TOnStart == Is("on_start") /\ E.h = sc.start /\ OnStart /\ UNCHANGED aux
TLookup == /\ Is("lookup") /\ InRange /\ E.h = cur /\ E.found = (cur \in DOMAIN idx) /\ Lookup /\ UNCHANGED aux
\* Open . SeekRead . CloseIfLast on the success path, state compared with the logged one
TFetched == /\ Is("fetched") /\ pc = "open" /\ E.h = cur
            /\ E.file = idx[cur].file /\ E.off = idx[cur].off          \* C03: read where the record says
            /\ E.file \in sc.files
            /\ E.hash = idx[cur].id                                      \* C03: the block stored there is the record's
            /\ open' = OpenAfter(open \cup {E.file}, E.file, cur)
            /\ ToSet(E.open) = open'                                      \* C17: logged open set
            /\ blk' = E.hash
            /\ pc' = IF sc.verify THEN "verify" ELSE "deliver"
            \* C17: the descriptors the process really holds on blk files (counted from /proc/self/fd) are exactly the open set -
            \* no second handle, nothing reopened behind the bookkeeping
            /\ Has(E, "blkfds") => E.blkfds = Len(E.open)
            /\ aux' = [aux EXCEPT !.prev = IF Has(E, "prev") THEN E.prev ELSE ""]
            /\ UNCHANGED <<sc, scan, seen, lastAt, idx, fileMaxH, maxH, cur, delivered, tmp, fin, rows, exit, errH>>
\* Open or SeekRead failing: reported with the height
TReadErr == /\ (Is("read_err") \/ Is("nofile")) /\ pc = "open" /\ E.h = cur /\ Fail(cur) /\ UNCHANGED aux
            /\ UNCHANGED <<sc, scan, seen, lastAt, idx, fileMaxH, maxH, cur, open, blk, delivered, tmp, fin, rows>>
\* published genesis hashes (independent of types.rs)
GenesisOf(coin) ==
  CASE coin = "bitcoin" -> "000000000019d6689c085ae165831e934ff763ae46a2a6c172b3f1b60a8ce26f"
    [] coin = "testnet3" -> "000000000933ea01ad0ee984209779baaec3ced90fa3f408719526f8d77f4943"
    [] coin = "namecoin" -> "000000000062b72c5e2ceb45fbc8587e807c155b0da735e6483dfba2f0a9c770"
    [] coin = "litecoin" -> "12a765e31ffd4059bada1e25190f6e98c99d9714d334efa41a195a7e7e04bfe2"
    [] coin = "dogecoin" -> "1a91e3dace36e2be3bf030a65679fe821aa1d6ef92e7c9902eb318182c355691"
    [] coin = "myriadcoin" -> "00000ffde4c020b5938441a0ea3d314bf619eff0b38f32f78f7583cffa1ea485"
    [] coin = "unobtanium" -> "000004c2fc5fffb810dccc197d603690099a68305232e552d96ccbe8e2c52b75"
    [] coin = "noteblockchain" -> "270f3e7b185c412d57ba913d10658df54f15201a67d736cb4071a4ec4eb54836"
    [] OTHER -> "?"
\* C09: the verdict of --verify is exactly: merkle root matches (logged fact: the tree itself is not in the trace), block 0
\* hashes to the coin's genesis hash, any other block's prev-hash is the indexed hash of the height below
LinkOk == cur > 0 => ((cur - 1) \in DOMAIN idx /\ aux.prev = idx[cur - 1].id)
TVerify == /\ Is("verify") /\ pc = "verify" /\ E.h = cur /\ UNCHANGED aux
           /\ (E.ok /\ aux.prev # "") => LinkOk
           /\ (Has(E, "mr_ok") /\ aux.prev # "") =>
                 (E.ok <=> (E.mr_ok /\ (cur = 0 => E.hash = GenesisOf(aux.coin)) /\ LinkOk))
           /\ IF E.ok THEN pc' = "deliver" /\ UNCHANGED <<exit, errH>> ELSE Fail(cur)
           /\ UNCHANGED <<sc, scan, seen, lastAt, idx, fileMaxH, maxH, cur, open, blk, delivered, tmp, fin, rows>>
TDeliver == Is("deliver") /\ E.h = cur /\ E.hash = blk /\ Deliver /\ UNCHANGED aux
TLeaveLoop == pc = "lookup" /\ ~InRange /\ Lookup /\ Silent

\* ---- completion -------------------------------------------------------------------------------
TOnComplete == Is("on_complete") /\ pc = "complete" /\ E.h = LastDelivered /\ ProduceSummary /\ UNCHANGED aux
FileOfTmp(name) == TmpBase(name)
FinalStr(f) == f \o "-" \o ToString(sc.start) \o "-" \o ToString(LastDelivered) \o ".csv"
\* C10: nothing may be buffered when the file takes its final name; C02: the name carries start and last
TRename == /\ Is("rename") /\ pc = "finish"
           /\ LET f == FileOfTmp(E.file) IN
                /\ E.buffered = 0
                /\ E.to = FinalStr(f)
                /\ f \in DOMAIN tmp \ Renamed
                \* the logged buffer state is authoritative: every writer observed empty has been flushed
                /\ tmp' = [g \in DOMAIN tmp |-> IF g = f THEN [disk |-> rows[f], buf |-> 0] ELSE tmp[g]]
                /\ fin' = [n \in DOMAIN fin \cup {FinalName(f)} |-> IF n = FinalName(f) THEN f ELSE fin[n]]
           /\ aux' = [aux EXCEPT !.ino = IF Has(E, "ino") THEN E.ino ELSE 0]
           /\ UNCHANGED <<sc, pc, scan, seen, lastAt, idx, fileMaxH, maxH, cur, open, blk, delivered, rows, exit, errH>>
\* RenameFile makes the final name designate THE tmp file (same inode): the final name never holds anything but the complete file.
\* A copy followed by a removal would create the final name empty and fill it afterwards.
TRenamed == /\ Is("renamed") /\ pc = "finish" /\ FileOfTmp(E.file) \in Renamed
            /\ (Has(E, "ino") /\ aux.ino # 0) => E.ino = aux.ino
            /\ aux' = [aux EXCEPT !.renamed = @ \cup {FileOfTmp(E.file)}] /\ UNCHANGED vars
TCompleted == /\ Is("completed") /\ UNCHANGED aux
              /\ IF sc.cb \in FileCallbacks THEN aux.renamed = DOMAIN tmp /\ FinishDone
                 ELSE pc = "exit" /\ UNCHANGED vars
TExit == /\ Is("exit") /\ UNCHANGED aux
         /\ IF E.code = 0 THEN ExitOk
            ELSE /\ pc = "done" /\ exit = 1 /\ (Has(E, "h") => errH = E.h) /\ UNCHANGED vars

\* events of other state machines (UTXO bookkeeping, parallel evaluation) interleave with the run's and are validated by
\* Trace_Utxo / Trace_Par: here they are stuttering steps
Known == {"cmd", "tmp_create", "idx_rec", "idx_keep", "idx_done", "files", "on_start", "lookup", "fetched", "read_err", "nofile",
          "verify", "deliver", "on_complete", "rename", "renamed", "completed", "exit"}
TForeign == l <= N /\ Ev[l].ev \notin Known /\ l' = l + 1 /\ UNCHANGED <<vars, aux>>

TNext == \/ TForeign \/ TBegin \/ TTmpCreate \/ TTmpSilent \/ TScan \/ TKeep \/ TDone \/ TFiles \/ TOnStart \/ TLookup
         \/ TFetched \/ TReadErr \/ TVerify \/ TDeliver \/ TLeaveLoop \/ TOnComplete \/ TRename \/ TRenamed
         \/ TCompleted \/ TExit

TSpec == TInit /\ [][TNext]_tvars

\* ---- acceptance -------------------------------------------------------------------------------
\* register 1 holds the furthest event index reached (silent steps make the diameter useless here)
Progress == TLCSet(1, IF TLCGet(1) > l THEN TLCGet(1) ELSE l)
TraceAccepted == IF TLCGet(1) = N + 1 THEN TRUE
                 ELSE Print(<<"TRACE-REJECTED at event", TLCGet(1), IF TLCGet(1) <= N THEN Ev[TLCGet(1)] ELSE "eof">>, FALSE)
ASSUME TLCSet(1, 0)

\* invariants evaluated on the trace, besides the base specification's own
\* RightBlock for the block delivered last (the earlier ones were checked in the earlier states)
RightBlockT == Len(delivered) > 0 =>
                 LET d == delivered[Len(delivered)] IN d[1] \in DOMAIN idx /\ d[2] = idx[d[1]].id
LinkedT == pc = "deliver" /\ Len(delivered) > 0 /\ aux.prev # "" => aux.prev = delivered[Len(delivered)][2]
=============================================================================
