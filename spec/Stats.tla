-------------------------------- MODULE Stats --------------------------------
(***************************************************************************)
(* callbacks/simplestats.rs (C15): the accumulators the callback keeps     *)
(* while blocks arrive, against the declarative meaning of every figure of *)
(* the report computed over the processed prefix.                          *)
(*                                                                         *)
(* Quantities are small naturals in units the concretiser fixes (value:    *)
(* 12.5 coins, so that the base reward is 4, 2, 1 units in eras 0, 1, 2;   *)
(* sizes and time gaps likewise): every figure is a sum, maximum, clamped  *)
(* difference or mean, all of which commute with the unit.                 *)
(* A transaction is [cb, nin, outs: Seq([val, typ]), size]; a block is     *)
(* [era, size, time, txs].                                                 *)
(***************************************************************************)
EXTENDS Integers, Sequences, FiniteSets, TLC

CONSTANTS TxMenu,      \* set of transactions blocks are made of
          MaxBlocks, MaxTxs, Sizes, Times, Eras

VARIABLES chain,       \* blocks delivered so far (the prefix)
          cur,         \* block being accumulated: [b, k] (k = next tx) or <<>>
          acc          \* the accumulators of SimpleStats
vars == <<chain, cur, acc>>

Reward(era) == CASE era = 0 -> 4 [] era = 1 -> 2 [] OTHER -> 1
RECURSIVE SumSeq(_)
SumSeq(s) == IF s = <<>> THEN 0 ELSE Head(s) + SumSeq(Tail(s))
TxValue(tx) == SumSeq([i \in DOMAIN tx.outs |-> tx.outs[i].val])
Monus(a, b) == IF a > b THEN a - b ELSE 0

Acc0 == [blocks |-> 0, sizes |-> <<>>, txs |-> 0, ins |-> 0, outs |-> 0, fee |-> 0, volume |-> 0,
         bigVal |-> [v |-> 0, at |-> <<0, 0>>], bigSize |-> [v |-> 0, at |-> <<0, 0>>],
         types |-> <<>>, first |-> <<>>, gaps |-> <<>>, lastT |-> -1]

Init == chain = <<>> /\ cur = <<>> /\ acc = Acc0

Blocks == [era : Eras, size : Sizes, time : Times, txs : UNION {[1..n -> TxMenu] : n \in 1..MaxTxs}]

Bump(f, t) == [x \in DOMAIN f \cup {t} |-> IF x = t THEN (IF t \in DOMAIN f THEN f[t] + 1 ELSE 1) ELSE f[x]]
RECURSIVE CountTypes(_, _, _, _)
\* per output: type count and first occurrence <<block number, tx number>> (the block number stands for the height)
CountTypes(a, outs, i, pos) ==
  IF i > Len(outs) THEN a
  ELSE LET t == outs[i].typ IN
       CountTypes([a EXCEPT !.types = Bump(@, t),
                            !.first = IF t \in DOMAIN @ THEN @ ELSE [x \in DOMAIN @ \cup {t} |-> IF x = t THEN pos ELSE @[x]]],
                  outs, i + 1, pos)

\* effect of one transaction on the accumulators (shared with the trace specification); rew = base reward at this height,
\* pos = where the transaction is (block, index) - any value identifying it
TxEffect(a, tx, rew, pos) ==
  LET v == TxValue(tx)
      a1 == [a EXCEPT !.fee = @ + (IF tx.cb /\ tx.outs # <<>> THEN Monus(tx.outs[1].val, rew) ELSE 0),
                      !.ins = @ + tx.nin, !.outs = @ + Len(tx.outs), !.volume = @ + v,
                      !.bigVal = IF v > @.v THEN [v |-> v, at |-> pos] ELSE @,
                      !.bigSize = IF tx.size > @.v THEN [v |-> tx.size, at |-> pos] ELSE @]
  IN CountTypes(a1, tx.outs, 1, pos)
\* effect of the block-level bookkeeping: counters at entry, time gap at exit
BlockEffect(a, ntx, size) == [a EXCEPT !.blocks = @ + 1, !.txs = @ + ntx, !.sizes = Append(@, size)]
\* a gap for every block but the first of the range (lastT = -1: no block yet; a header timestamp of 0 is a timestamp like any other)
TimeEffect(a, t) == [a EXCEPT !.gaps = IF a.lastT >= 0 THEN Append(@, Monus(t, a.lastT)) ELSE @, !.lastT = t]

\* on_block entry: block counters
AccBlock(b) == /\ cur = <<>> /\ Len(chain) < MaxBlocks
               /\ (chain # <<>> => b.era >= chain[Len(chain)].era)          \* heights ascend
               /\ cur' = [b |-> b, k |-> 1]
               /\ acc' = BlockEffect(acc, Len(b.txs), b.size)
               /\ UNCHANGED chain

\* the body of the `for tx in &block.txs` loop
AccTx == /\ cur # <<>> /\ cur.k <= Len(cur.b.txs)
         /\ acc' = TxEffect(acc, cur.b.txs[cur.k], Reward(cur.b.era), <<Len(chain) + 1, cur.k>>)
         /\ cur' = [cur EXCEPT !.k = @ + 1] /\ UNCHANGED chain

\* end of on_block: time between blocks (clamped at zero), remember the timestamp
AccTime == /\ cur # <<>> /\ cur.k > Len(cur.b.txs)
           /\ acc' = TimeEffect(acc, cur.b.time)
           /\ chain' = Append(chain, cur.b) /\ cur' = <<>>

Next == (\E b \in Blocks : AccBlock(b)) \/ AccTx \/ AccTime
Spec == Init /\ [][Next]_vars

-----------------------------------------------------------------------------
(* Declarative meaning of the report over a prefix C                                                                  *)
AllTx(C) == {<<i, k>> : i \in DOMAIN C, k \in 1..MaxTxs} \cap {p \in (1..MaxBlocks) \X (1..MaxTxs) : p[1] \in DOMAIN C /\ p[2] \in DOMAIN C[p[1]].txs}
TxAt(C, p) == C[p[1]].txs[p[2]]
Before(p, q) == p[1] < q[1] \/ (p[1] = q[1] /\ p[2] < q[2])
RECURSIVE SumFun(_, _)
SumFun(f, S) == IF S = {} THEN 0 ELSE LET p == CHOOSE x \in S : TRUE IN f[p] + SumFun(f, S \ {p})
SumOver(C, S, F(_, _)) == SumFun([p \in S |-> F(C, p)], S)

FNin(C, p) == TxAt(C, p).nin
FNout(C, p) == Len(TxAt(C, p).outs)
FVal(C, p) == TxValue(TxAt(C, p))
FFee(C, p) == LET tx == TxAt(C, p) IN IF tx.cb /\ tx.outs # <<>> THEN Monus(tx.outs[1].val, Reward(C[p[1]].era)) ELSE 0

\* the first transaction (chain order) attaining the maximum of F, provided the maximum is positive
FirstMax(C, F(_, _)) ==
  LET S == AllTx(C) IN
  IF S = {} \/ \A p \in S : F(C, p) = 0 THEN [v |-> 0, at |-> <<0, 0>>]
  ELSE LET best == CHOOSE p \in S : /\ \A q \in S : F(C, q) <= F(C, p)
                                    /\ \A q \in S : F(C, q) = F(C, p) => (q = p \/ Before(p, q))
       IN [v |-> F(C, best), at |-> best]
FSize(C, p) == TxAt(C, p).size

StatsOf(C) ==
  [blocks |-> Len(C),
   sizes |-> [i \in DOMAIN C |-> C[i].size],
   txs |-> SumSeq([i \in DOMAIN C |-> Len(C[i].txs)]),
   ins |-> SumOver(C, AllTx(C), FNin), outs |-> SumOver(C, AllTx(C), FNout),
   fee |-> SumOver(C, AllTx(C), FFee), volume |-> SumOver(C, AllTx(C), FVal),
   bigVal |-> FirstMax(C, FVal), bigSize |-> FirstMax(C, FSize),
   gaps |-> [i \in 1..(Len(C) - 1) |-> Monus(C[i + 1].time, C[i].time)]]

\* C15: after every block the accumulators are the declarative figures of the prefix
Scalar(a) == [blocks |-> a.blocks, sizes |-> a.sizes, txs |-> a.txs, ins |-> a.ins, outs |-> a.outs, fee |-> a.fee,
              volume |-> a.volume, bigVal |-> a.bigVal, bigSize |-> a.bigSize, gaps |-> a.gaps]
AccIsStats == cur = <<>> => Scalar(acc) = StatsOf(chain)
\* per type: the number of outputs of that type and the first transaction (chain order) having one
TypeOuts(C, t) == {x \in AllTx(C) \X (1..8) : x[2] \in DOMAIN TxAt(C, x[1]).outs /\ TxAt(C, x[1]).outs[x[2]].typ = t}
TypesOk == cur = <<>> =>
             /\ \A t \in DOMAIN acc.types :
                  /\ acc.types[t] = Cardinality(TypeOuts(chain, t))
                  /\ \E x \in TypeOuts(chain, t) : x[1] = acc.first[t] /\ \A y \in TypeOuts(chain, t) : y[1] = x[1] \/ Before(x[1], y[1])
             /\ \A p \in AllTx(chain) : \A i \in DOMAIN TxAt(chain, p).outs : TxAt(chain, p).outs[i].typ \in DOMAIN acc.types
             /\ DOMAIN acc.types = DOMAIN acc.first
=============================================================================
