CONSTANTS
  L = 3
  Universe <- UniverseT
SPECIFICATION Spec
INVARIANTS Total Deterministic AddrFromPush TruncNoAddr NopTransparent Emit
CHECK_DEADLOCK FALSE
