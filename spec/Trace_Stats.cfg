CONSTANTS
  TxMenu = {}
  MaxBlocks = 0
  MaxTxs = 0
  Sizes = {}
  Times = {}
  Eras = {}
SPECIFICATION TSpec
POSTCONDITION TraceAccepted
CHECK_DEADLOCK FALSE
