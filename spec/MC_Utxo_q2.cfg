CONSTANTS
  MaxTx = 2
  MaxBlk = 2
  MaxIn = 2
  MaxOut = 1
  Addrs = {"a", "b"}
  Vals = {0, 1, 2}
SPECIFICATION MSpec
INVARIANTS UtxoIsUnspent MidTx NoAddressless BalancesOfDump Emit
CHECK_DEADLOCK FALSE
