CONSTANTS
  MaxLeaves = 33
  DupOdd = TRUE
SPECIFICATION Spec
INVARIANTS RootIsBitcoin Sensitive
CHECK_DEADLOCK FALSE
