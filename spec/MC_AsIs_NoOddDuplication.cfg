CONSTANTS
  MaxLeaves = 33
  DupOdd = FALSE
SPECIFICATION Spec
INVARIANTS RootIsBitcoin Sensitive
CHECK_DEADLOCK FALSE
