CONSTANTS
  NB = 3
  LFiles = {0, 1}
  LSlots = {1, 2, 3}
  Ranges <- RangesQ
  Cap = 2
  AsIs = {}
  Scenarios <- MCScen
SPECIFICATION Spec
INVARIANTS TypeOK IgnoreForeignKeys ExactRange RightBlock OnlyActive Linked OpenNeeded OpenBound Reopened ExitZeroComplete Emit
PROPERTY DeliverNext
CHECK_DEADLOCK FALSE
