CONSTANTS
  L = 3
  Universe <- UniverseQ
SPECIFICATION Spec
INVARIANTS Total Deterministic AddrFromPush TruncNoAddr NopTransparent Emit
CHECK_DEADLOCK FALSE
