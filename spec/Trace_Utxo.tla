----------------------------- MODULE Trace_Utxo -----------------------------
(***************************************************************************)
(* Trace validation of the UTXO bookkeeping (C07, C08) against Utxo.tla.   *)
(* Events (hooks in callbacks/common.rs and the two dumps), in program     *)
(* order:  cmd | spend{key,hit} | create{key,h,value,addr} | deliver{h} |  *)
(* on_complete | dump_row{key,h,value,addr} | bal_row{addr,balance} |      *)
(* completed | exit.                                                       *)
(* The map is rebuilt with the specification's SpendEff / CreateEff; the   *)
(* implementation's own map is observed through `hit` (contains_key before *)
(* every removal) and through the rows it finally writes, which must be    *)
(* exactly the specification's map (unspent) or its Balances (balances).   *)
(***************************************************************************)
EXTENDS Utxo, Json, IOUtils, SequencesExt

Ev == ndJsonDeserialize(IOEnv.TRACE)
N == Len(Ev)

VARIABLES l, dumped, bals, hs, cbv
tvars == <<vars, l, dumped, bals, hs, cbv>>
rest == <<hist, blk, phase, pend>>

Is(name) == l <= N /\ Ev[l].ev = name /\ l' = l + 1
E == Ev[l]
\* Values are u64 and do not fit TLC's integers: they stay decimal strings (equality) and are added as three limbs of 7 digits
Zeros == "000000000000000000000"
Limbs(s) == LET p == SubSeq(Zeros, 1, 21 - Len(s)) \o s IN <<atoi(SubSeq(p, 1, 7)), atoi(SubSeq(p, 8, 14)), atoi(SubSeq(p, 15, 21))>>
Norm(x) == LET c3 == x[3] \div 10000000  b == x[2] + c3  c2 == b \div 10000000
           IN <<x[1] + c2, b % 10000000, x[3] % 10000000>>
BigAdd(x, y) == Norm(<<x[1] + y[1], x[2] + y[2], x[3] + y[3]>>)
RECURSIVE BigSum(_, _)
BigSum(U, S) == IF S = {} THEN <<0, 0, 0>> ELSE LET o == CHOOSE x \in S : TRUE IN BigAdd(Limbs(U[o].val), BigSum(U, S \ {o}))

TInit == Init /\ l = 1 /\ dumped = {} /\ bals = {} /\ hs = {} /\ cbv = ""
TBegin == Is("cmd") /\ utxo' = <<>> /\ dumped' = {} /\ bals' = {} /\ hs' = {} /\ cbv' = E.cb

\* remove_unspents: the implementation's map must agree with the specification's on whether the key was present
TSpend == /\ Is("spend") /\ E.hit = (E.key \in DOMAIN utxo)
          /\ utxo' = SpendEff(utxo, E.key) /\ UNCHANGED <<dumped, bals, hs, cbv>>
\* insert_unspents: only address-bearing outputs; the key is txid || LE32(index) = 72 hex digits
TCreate == /\ Is("create") /\ Len(E.key) = 72 /\ E.addr # ""
           /\ utxo' = CreateEff(utxo, E.key, [h |-> E.h, val |-> E.value, addr |-> E.addr])
           /\ hs' = hs \cup {E.h} /\ UNCHANGED <<dumped, bals, cbv>>
\* every output created while block h was processed carries height h
TDeliver == Is("deliver") /\ hs \subseteq {E.h} /\ hs' = {} /\ UNCHANGED <<utxo, dumped, bals, cbv>>
TOnComplete == Is("on_complete") /\ UNCHANGED <<utxo, dumped, bals, hs, cbv>>
\* unspentcsvdump on_complete: each row is an entry of the map, none twice
TDumpRow == /\ Is("dump_row") /\ E.key \in DOMAIN utxo /\ E.key \notin dumped
            /\ utxo[E.key] = [h |-> E.h, val |-> E.value, addr |-> E.addr]
            /\ dumped' = dumped \cup {E.key} /\ UNCHANGED <<utxo, bals, hs, cbv>>
\* balances on_complete: each row is an address with the sum of its unspent outputs, none twice
TBalRow == /\ Is("bal_row") /\ E.addr \notin bals
           /\ E.addr \in {utxo[o].addr : o \in DOMAIN utxo}
           /\ Limbs(E.balance) = BigSum(utxo, {o \in DOMAIN utxo : utxo[o].addr = E.addr})
           /\ bals' = bals \cup {E.addr} /\ UNCHANGED <<utxo, dumped, hs, cbv>>
\* nothing missing: every unspent output / every owning address was written
TCompleted == /\ Is("completed") /\ UNCHANGED <<utxo, dumped, bals, hs, cbv>>
              /\ (cbv = "unspentcsvdump" => dumped = DOMAIN utxo)
              /\ (cbv = "balances" => bals = {utxo[o].addr : o \in DOMAIN utxo})
TExit == Is("exit") /\ UNCHANGED <<utxo, dumped, bals, hs, cbv>>

KnownU == {"cmd", "spend", "create", "deliver", "on_complete", "dump_row", "bal_row", "completed", "exit"}
TOther == l <= N /\ Ev[l].ev \notin KnownU /\ l' = l + 1 /\ UNCHANGED <<utxo, dumped, bals, hs, cbv>>
TNext == (TOther \/ TBegin \/ TSpend \/ TCreate \/ TDeliver \/ TOnComplete \/ TDumpRow \/ TBalRow \/ TCompleted \/ TExit) /\ UNCHANGED rest
TSpec == TInit /\ [][TNext]_tvars

TraceAccepted == IF TLCGet("stats").diameter - 1 = N THEN TRUE
                 ELSE Print(<<"TRACE-REJECTED at event", TLCGet("stats").diameter, IF TLCGet("stats").diameter <= N THEN Ev[TLCGet("stats").diameter] ELSE "eof">>, FALSE)
NoAddresslessT == \A o \in DOMAIN utxo : utxo[o].addr # ""
=============================================================================
