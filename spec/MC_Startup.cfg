CONSTANTS
  MaxT = 1
  MaxL = 1
  Cap = 2
  AsIs = {}
  Scenarios <- StartupScen
SPECIFICATION Spec
INVARIANTS TypeOK StartupFails FinalNeverPartial ExitZeroComplete FailureLeavesNone EmitS
CHECK_DEADLOCK FALSE
