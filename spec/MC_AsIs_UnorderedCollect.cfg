CONSTANTS
  NTx = 3
  NOut = 2
  Workers = {1, 2}
  Collect = "completion"
SPECIFICATION Spec
INVARIANTS OrderPreserved
CHECK_DEADLOCK FALSE
