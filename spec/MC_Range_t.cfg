CONSTANTS
  MaxT = 7
  Cap = 2
  AsIs = {}
  Scenarios <- MCScen
SPECIFICATION Spec
INVARIANTS TypeOK ExactRange Names RightBlock OnlyActive Linked FinalNeverPartial ExitZeroComplete FailureLeavesNone OpenNeeded OpenBound Emit
PROPERTY DeliverNext
CHECK_DEADLOCK FALSE
