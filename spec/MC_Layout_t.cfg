CONSTANTS
  NB = 4
  LFiles = {0, 1, 2}
  LSlots = {1, 2, 3}
  Ranges <- RangesT
  Cap = 2
  AsIs = {}
  Scenarios <- MCScen
SPECIFICATION Spec
INVARIANTS TypeOK IgnoreForeignKeys ExactRange RightBlock OnlyActive Linked OpenNeeded OpenBound Reopened ExitZeroComplete Emit
PROPERTY DeliverNext
CHECK_DEADLOCK FALSE
