CONSTANTS
  NTx = 4
  NOut = 3
  Workers = {1, 2, 3}
  Collect = "indexed"
SPECIFICATION Spec
INVARIANTS OrderPreserved
CHECK_DEADLOCK FALSE
VIEW View
