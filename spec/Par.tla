--------------------------------- MODULE Par ---------------------------------
(***************************************************************************)
(* The two nested parallel evaluations of a block (C13):                   *)
(*   block.rs:28  txs.into_par_iter().map(eval tx).collect()               *)
(*   tx.rs:42       outputs.into_par_iter().map(eval script).collect()     *)
(* on a work-stealing pool: any idle worker may take any pending task, the *)
(* evaluation of a transaction spawns the tasks of its outputs and joins   *)
(* them.  Collect = "indexed" writes every result into the slot of its     *)
(* input index (rayon's collect of an indexed iterator); "completion"      *)
(* appends results as they finish (what an unordered collect would do).    *)
(***************************************************************************)
EXTENDS Integers, Sequences, FiniteSets, TLC

CONSTANTS NTx, NOut, Workers, Collect

VARIABLES tx,      \* tx[i] \in {"pending", "running", "joining", "done"}
          out,     \* out[i][j] \in {"blocked", "pending", "done"}
          who,     \* who[i] = worker evaluating transaction i
          rows,    \* collected results of the block: sequence of <<i, seq of j>>
          orows,   \* per transaction: collected output results (sequence of j)
          order    \* evaluation order of the tasks (history; what the eval hook logs)
vars == <<tx, out, who, rows, orows, order>>

Txs == 1..NTx
Outs == 1..NOut
Init == /\ tx = [i \in Txs |-> "pending"] /\ out = [i \in Txs |-> [j \in Outs |-> "blocked"]]
        /\ who = [i \in Txs |-> 0] /\ rows = <<>> /\ orows = [i \in Txs |-> <<>>] /\ order = <<>>

\* a worker takes a pending transaction: EvaluatedTx::new starts, the output tasks become available
StartTx(w, i) == /\ tx[i] = "pending"          \* (a worker waiting in a join may start another transaction: work stealing)
                 /\ tx' = [tx EXCEPT ![i] = "joining"] /\ who' = [who EXCEPT ![i] = w]
                 /\ out' = [out EXCEPT ![i] = [j \in Outs |-> "pending"]]
                 /\ order' = Append(order, <<"tx", i>>) /\ UNCHANGED <<rows, orows>>
\* any worker (the owner or a thief) evaluates any pending output script
EvalOut(w, i, j) == /\ out[i][j] = "pending"
                    /\ out' = [out EXCEPT ![i][j] = "done"]
                    /\ orows' = [orows EXCEPT ![i] = IF Collect = "indexed" THEN @ ELSE Append(@, j)]
                    /\ order' = Append(order, <<"out", i, j>>) /\ UNCHANGED <<tx, who, rows>>
\* join: all outputs evaluated, the transaction's result is complete (txid hashed) and collected
FinishTx(i) == /\ tx[i] = "joining" /\ \A j \in Outs : out[i][j] = "done"
               /\ tx' = [tx EXCEPT ![i] = "done"]
               /\ orows' = [orows EXCEPT ![i] = IF Collect = "indexed" THEN [j \in Outs |-> j] ELSE @]
               /\ rows' = IF Collect = "indexed" THEN rows ELSE Append(rows, i)
               /\ UNCHANGED <<out, who, order>>
\* the block is assembled once every transaction is done
Assemble == /\ rows = <<>> /\ Collect = "indexed" /\ \A i \in Txs : tx[i] = "done"
            /\ rows' = [i \in Txs |-> i] /\ UNCHANGED <<tx, out, who, orows, order>>

Next == \/ \E w \in Workers, i \in Txs : StartTx(w, i)
        \/ \E w \in Workers, i \in Txs, j \in Outs : EvalOut(w, i, j)
        \/ \E i \in Txs : FinishTx(i)
        \/ Assemble
Spec == Init /\ [][Next]_vars

View == <<tx, out, who, rows, orows>>
Complete == \A i \in Txs : tx[i] = "done"
\* C13: whatever the schedule, the rows come out in input order
OrderPreserved == (Complete /\ Len(rows) = NTx) =>
                     /\ rows = [i \in Txs |-> i]
                     /\ \A i \in Txs : orows[i] = [j \in Outs |-> j]
\* the schedule space really contains out-of-order evaluations (otherwise the invariant above says nothing)
SomeReordering == ~(Complete /\ \E a, b \in DOMAIN order : a < b /\ order[a][1] = "tx" /\ order[b][1] = "tx" /\ order[a][2] > order[b][2])
=============================================================================
