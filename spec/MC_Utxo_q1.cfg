CONSTANTS
  MaxTx = 2
  MaxBlk = 2
  MaxIn = 1
  MaxOut = 2
  Addrs = {"a", "b"}
  Vals = {1}
SPECIFICATION MSpec
INVARIANTS UtxoIsUnspent MidTx NoAddressless BalancesOfDump Emit
CHECK_DEADLOCK FALSE
