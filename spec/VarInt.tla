------------------------------- MODULE VarInt -------------------------------
(* Bitcoin Core's VarInt (MSB base-128 with a -1 carry per continuation byte) as written by the   *)
(* node into the block index, and the decoder of parser/index.rs:read_varint.  Heights, status,   *)
(* file numbers and offsets of every index record travel through it (C03).                        *)
EXTENDS Integers, Sequences

CONSTANTS Small,    \* 0..Small is enumerated completely
          W         \* half width of the window enumerated around every width boundary

VARIABLES n, hi
vars == <<n, hi>>

\* serialize.h WriteVarInt
RECURSIVE Enc(_, _)
Enc(v, last) == LET b == (v % 128) + (IF last THEN 0 ELSE 128)
                IN IF v <= 127 THEN <<b>> ELSE Enc((v \div 128) - 1, FALSE) \o <<b>>
Encode(v) == Enc(v, TRUE)

\* index.rs read_varint: returns <<value, bytes consumed>>
RECURSIVE Dec(_, _, _)
Dec(bytes, i, acc) == LET b == bytes[i]
                          a == acc * 128 + (b % 128)
                      IN IF b >= 128 THEN Dec(bytes, i + 1, a + 1) ELSE <<a, i>>
Decode(bytes) == Dec(bytes, 1, 0)

Boundaries == {128, 16512, 2113664}
Windows == {<<0, Small>>} \cup {<<IF b > W THEN b - W ELSE 0, b + W>> : b \in Boundaries}

Init == \E r \in Windows : n = r[1] /\ hi = r[2]
Next == n < hi /\ n' = n + 1 /\ UNCHANGED hi
Spec == Init /\ [][Next]_vars

Width(v) == IF v < 128 THEN 1 ELSE IF v < 16512 THEN 2 ELSE IF v < 2113664 THEN 3 ELSE 4

RoundTrip == Decode(Encode(n)) = <<n, Len(Encode(n))>>
\* a record is a concatenation of VarInts: decoding must stop exactly at the end of the first one
SelfDelimiting == Decode(Encode(n) \o <<255, 0, 7>>) = <<n, Len(Encode(n))>>
Widths == Len(Encode(n)) = Width(n)
\* the encoding is monotone in length and the last byte alone has its high bit clear
Shape == LET e == Encode(n) IN \A i \in 1..Len(e) : (e[i] < 128) <=> (i = Len(e))
=============================================================================
