--------------------------------- MODULE Wire ---------------------------------
(***************************************************************************)
(* The on-disk block format and its recursive-descent decoder              *)
(* (parser/reader.rs:31-175, proto/varuint.rs, the witness-free            *)
(* re-serialisation of proto/tx.rs).  C01, C12, part of C14.               *)
(*                                                                         *)
(* Enc(shape) is the byte stream of a block as a sequence of fields        *)
(* [k, n, v]: kind, byte length, and - for CompactSize and one-byte        *)
(* fields - the value the decoder will see.  Dec(stream, coin) is the      *)
(* decoder: it knows nothing about the shape, only what it reads, exactly  *)
(* like the code: counts and lengths come from CompactSize values, the     *)
(* segwit marker is "an input count of zero", the AuxPoW section is read   *)
(* iff the coin has an activation version and the header version reaches   *)
(* it.  Reading a field of another kind than the code expects at that      *)
(* point is a misparse.  Every shape of the bounded universe is an initial *)
(* state; TLC checks the invariants on each and prints the sequence of     *)
(* primitive reads, which the real decoder (driver read-block) must        *)
(* perform byte for byte on a concretisation of the shape.                 *)
(***************************************************************************)
EXTENDS Integers, Sequences, FiniteSets, TLC, Json

CONSTANTS Universe,     \* set of [coin, block shape]
          WitnessLoop   \* "inputs" (the design) | "outputs" (a defect: witness stacks counted by the output count)

VARIABLE sh
vars == <<sh>>

\* ---- length / count classes and their CompactSize width -------------------------------------------------------
\* "z" = 0, "s" = 1..252, "m" = 253..65535, "l" = 65536..2^32-1
CsWidth(c) == CASE c \in {"z", "s"} -> 1 [] c = "m" -> 3 [] c = "l" -> 5
\* a representative number of bytes / elements per class, as seen by the specification (the concretiser picks real ones)
Rep(c) == CASE c = "z" -> 0 [] c = "s" -> 2 [] c = "m" -> 253 [] c = "l" -> 65536

F(k, n, v) == [k |-> k, n |-> n, v |-> v]
Cs(v, c) == F("cs", CsWidth(c), v)
Bytes(c) == IF c = "z" THEN <<>> ELSE <<F("bytes", Rep(c), 0)>>

\* ---- encoder --------------------------------------------------------------------------------------------------
\* tx shape: [seg, ins: Seq(script class), outs: Seq(script class), wit: Seq(Seq(item class))]  (wit has one stack per input)
RECURSIVE Cat(_)
Cat(ss) == IF ss = <<>> THEN <<>> ELSE Head(ss) \o Cat(Tail(ss))
EncIn(c) == <<F("hash", 32, 0), F("u32", 4, 0), Cs(Rep(c), c)>> \o Bytes(c) \o <<F("u32", 4, 0)>>
EncOut(c) == <<F("u64", 8, 0), Cs(Rep(c), c)>> \o Bytes(c)
EncStack(st) == <<Cs(Len(st), "s")>> \o Cat([i \in DOMAIN st |-> <<Cs(Rep(st[i]), st[i])>> \o Bytes(st[i])])
EncTx(tx) == <<F("u32", 4, 0)>>
             \o (IF tx.seg THEN <<F("cs", 1, 0), F("u8", 1, 1)>> ELSE <<>>)          \* marker (reads as a zero count) and flag
             \o <<Cs(Len(tx.ins), "s")>> \o Cat([i \in DOMAIN tx.ins |-> EncIn(tx.ins[i])])
             \o <<Cs(Len(tx.outs), "s")>> \o Cat([i \in DOMAIN tx.outs |-> EncOut(tx.outs[i])])
             \o (IF tx.seg THEN Cat([i \in DOMAIN tx.wit |-> EncStack(tx.wit[i])]) ELSE <<>>)
             \o <<F("u32", 4, 0)>>
\* the witness-stripped serialisation whose double SHA-256 is the txid
EncStripped(tx) == EncTx([tx EXCEPT !.seg = FALSE])

EncHeader(ver) == <<F("u32", 4, ver), F("hash", 32, 0), F("hash", 32, 0), F("u32", 4, 0), F("u32", 4, 0), F("u32", 4, 0)>>
EncBranch(n) == <<Cs(n, "s")>> \o [i \in 1..n |-> F("hash", 32, 0)] \o <<F("u32", 4, 0)>>
\* AuxPoW section: parent coinbase tx, parent block hash, coinbase branch, blockchain branch, parent header
EncAux(a) == EncTx(a.cb) \o <<F("hash", 32, 0)>> \o EncBranch(a.b1) \o EncBranch(a.b2) \o EncHeader(0)
\* block shape: [ver (header version), aux (section shape or NoSection), txs]
NoSection == [cb |-> <<>>, b1 |-> -1, b2 |-> -1]
HasAux(b) == b.aux.b1 >= 0
EncBlock(b) == EncHeader(b.ver) \o (IF HasAux(b) THEN EncAux(b.aux) ELSE <<>>)
               \o <<Cs(Len(b.txs), "s")>> \o Cat([i \in DOMAIN b.txs |-> EncTx(b.txs[i])])

\* ---- decoder --------------------------------------------------------------------------------------------------
\* state threaded through the reads: [p (next field), ok, reads (sizes of the primitive reads so far)]
Bad(st) == [st EXCEPT !.ok = FALSE]
\* read one field of kind k: one primitive read (CompactSize: the first byte, then the rest), zero-length reads do not happen
Rd(S, st, k) == IF ~st.ok \/ st.p > Len(S) \/ S[st.p].k # k THEN Bad(st)
                ELSE [st EXCEPT !.p = @ + 1,
                                !.reads = @ \o (IF k = "cs" THEN (IF S[st.p].n = 1 THEN <<1>> ELSE <<1, S[st.p].n - 1>>) ELSE <<S[st.p].n>>)]
Val(S, st) == IF st.ok /\ st.p > 1 /\ st.p - 1 <= Len(S) THEN S[st.p - 1].v ELSE 0      \* value of the field just read
RdBytes(S, st, n) == IF n = 0 THEN st
                     ELSE IF ~st.ok \/ st.p > Len(S) \/ S[st.p].k # "bytes" \/ S[st.p].n # n THEN Bad(st)
                     ELSE [st EXCEPT !.p = @ + 1, !.reads = Append(@, n)]

RECURSIVE RdInputs(_, _, _), RdOutputs(_, _, _), RdItems(_, _, _), RdStacks(_, _, _), RdHashes(_, _, _)
RdInputs(S, st, n) == IF n = 0 \/ ~st.ok THEN st
                      ELSE LET a == Rd(S, Rd(S, st, "hash"), "u32")  b == Rd(S, a, "cs")  c == RdBytes(S, b, Val(S, b))
                           IN RdInputs(S, Rd(S, c, "u32"), n - 1)
RdOutputs(S, st, n) == IF n = 0 \/ ~st.ok THEN st
                       ELSE LET a == Rd(S, st, "u64")  b == Rd(S, a, "cs") IN RdOutputs(S, RdBytes(S, b, Val(S, b)), n - 1)
RdItems(S, st, n) == IF n = 0 \/ ~st.ok THEN st ELSE LET a == Rd(S, st, "cs") IN RdItems(S, RdBytes(S, a, Val(S, a)), n - 1)
RdStacks(S, st, n) == IF n = 0 \/ ~st.ok THEN st ELSE LET a == Rd(S, st, "cs") IN RdStacks(S, RdItems(S, a, Val(S, a)), n - 1)
RdHashes(S, st, n) == IF n = 0 \/ ~st.ok THEN st ELSE RdHashes(S, Rd(S, st, "hash"), n - 1)

\* read_tx: returns the state plus what ends up in the RawTx: counts and whether a marker was seen
RdTx(S, st0) ==
  LET v == Rd(S, st0, "u32")
      c1 == Rd(S, v, "cs")
      seg == Val(S, c1) = 0
      fl == IF seg THEN Rd(S, c1, "u8") ELSE c1
      flags == IF seg THEN Val(S, fl) ELSE 0
      c2 == IF seg THEN Rd(S, fl, "cs") ELSE c1
      nin == Val(S, c2)
      i == RdInputs(S, c2, nin)
      oc == Rd(S, i, "cs")
      nout == Val(S, oc)
      o == RdOutputs(S, oc, nout)
      w == IF flags % 2 = 1 THEN RdStacks(S, o, IF WitnessLoop = "inputs" THEN nin ELSE nout) ELSE o
  IN [st |-> Rd(S, w, "u32"), nin |-> nin, nout |-> nout, seg |-> seg, from |-> st0.p, inAt |-> c2.p - 1,
      outEnd |-> o.p - 1, lockAt |-> w.p]

RdHeader(S, st) == Rd(S, Rd(S, Rd(S, Rd(S, Rd(S, Rd(S, st, "u32"), "hash"), "hash"), "u32"), "u32"), "u32")
RdBranch(S, st) == LET a == Rd(S, st, "cs") IN Rd(S, RdHashes(S, a, Val(S, a)), "u32")
RdAux(S, st) == RdHeader(S, RdBranch(S, RdBranch(S, Rd(S, RdTx(S, st).st, "hash"))))

RECURSIVE RdTxs(_, _, _, _)
RdTxs(S, st, n, acc) == IF n = 0 \/ ~st.ok THEN [st |-> st, txs |-> acc]
                        ELSE LET t == RdTx(S, st) IN RdTxs(S, t.st, n - 1, Append(acc, t))

\* AuxPoW activation versions (types.rs): namecoin 0x10101, dogecoin 0x620102; header versions are abstracted to
\* 0 = below, 1 = equal, 2 = above the coin's threshold
AuxCoins == {"namecoin", "dogecoin"}
ReadsAux(coin, ver) == coin \in AuxCoins /\ ver >= 1

\* read_block
Dec(S, coin) ==
  LET h == RdHeader(S, [p |-> 1, ok |-> TRUE, reads |-> <<>>])
      ver == IF Len(S) >= 1 THEN S[1].v ELSE 0
      a == IF ReadsAux(coin, ver) THEN RdAux(S, h) ELSE h
      c == Rd(S, a, "cs")
      r == RdTxs(S, c, Val(S, c), <<>>)
  IN [ok |-> r.st.ok, used |-> r.st.p - 1, reads |-> r.st.reads, txs |-> r.txs, aux |-> ReadsAux(coin, ver)]

\* ToRaw for EvaluatedTx (what the txid hashes): version, raw in-count bytes, inputs, raw out-count bytes, outputs,
\* locktime - i.e. the fields the decoder kept; marker, flag and witness stacks are not among them
Reser(S, t) == <<S[t.from]>> \o SubSeq(S, t.inAt, t.outEnd) \o <<S[t.lockAt]>>

-----------------------------------------------------------------------------
Init == sh \in Universe
Next == UNCHANGED sh
Spec == Init /\ [][Next]_vars

Stream == EncBlock(sh.block)
D == Dec(Stream, sh.coin)
WellFormedFor(coin, b) == HasAux(b) <=> ReadsAux(coin, b.ver)       \* the node wrote a section iff the coin's rules say so

\* C01: a well-formed block is decoded exactly: no misparse, every field consumed, nothing left over
DecodeExact == WellFormedFor(sh.coin, sh.block) => (D.ok /\ D.used = Len(Stream))
\* C01: transaction and input/output counts are those of the block (row counts of csvdump)
CountsRight == WellFormedFor(sh.coin, sh.block) =>
                 /\ Len(D.txs) = Len(sh.block.txs)
                 /\ \A i \in DOMAIN D.txs : D.txs[i].nin = Len(sh.block.txs[i].ins) /\ D.txs[i].nout = Len(sh.block.txs[i].outs)
                                            /\ D.txs[i].seg = sh.block.txs[i].seg
\* C01: the bytes hashed into the txid are exactly the witness-stripped serialisation
RoundTrip == (WellFormedFor(sh.coin, sh.block) /\ D.ok) =>
               \A i \in DOMAIN D.txs : Reser(Stream, D.txs[i]) = EncStripped(sh.block.txs[i])
\* C01: a zero input count is read as the segwit marker; sound because well-formed legacy transactions have >= 1 input
MarkerUnambiguous == \A i \in DOMAIN sh.block.txs : Len(sh.block.txs[i].ins) >= 1
\* C12: the section is transparent - the transactions decoded are those of the same block without the section
NoAux(b) == [b EXCEPT !.aux = NoSection, !.ver = 0]
AuxTransparent == (WellFormedFor(sh.coin, sh.block) /\ HasAux(sh.block)) =>
                    LET plain == Dec(EncBlock(NoAux(sh.block)), sh.coin) IN
                      /\ plain.ok /\ Len(plain.txs) = Len(D.txs)
                      /\ \A i \in DOMAIN D.txs : D.txs[i].nin = plain.txs[i].nin /\ D.txs[i].nout = plain.txs[i].nout
                      /\ D.used - plain.used = Len(EncAux(sh.block.aux))
\* C12: coins without AuxPoW never read a section, whatever the version; AuxPoW coins never below the threshold
NoAuxElsewhere == D.aux = (sh.coin \in AuxCoins /\ sh.block.ver >= 1)
\* a block that carries a section the coin's rules do not announce (or lacks an announced one) is not decoded "by luck"
\* into the same transactions: the decoder either fails or leaves bytes over (negative control for the two above)
Misframed == ~WellFormedFor(sh.coin, sh.block) => ~(D.ok /\ D.used = Len(Stream) /\ Len(D.txs) = Len(sh.block.txs))

Emit == PrintT(<<"REPLAY", ToJson([coin |-> sh.coin, block |-> sh.block, ok |-> D.ok, used |-> D.used, fields |-> Len(Stream),
                                   reads |-> D.reads, wf |-> WellFormedFor(sh.coin, sh.block)])>>)
=============================================================================
