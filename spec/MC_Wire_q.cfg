CONSTANTS
  Universe <- UniverseQ
  WitnessLoop = "inputs"
SPECIFICATION Spec
INVARIANTS DecodeExact CountsRight RoundTrip MarkerUnambiguous AuxTransparent NoAuxElsewhere Misframed Emit
CHECK_DEADLOCK FALSE
