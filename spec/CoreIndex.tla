----------------------------- MODULE CoreIndex -----------------------------
(***************************************************************************)
(* The environment that wrote the block index (C04's "histories"): a       *)
(* Bitcoin-Core-like node that learns headers, receives block data,        *)
(* activates the best chain block by block (each connection may fail       *)
(* validation) and reorganises.  Every reachable state yields an index     *)
(* (one record per known block) and the ground-truth active chain.         *)
(*                                                                         *)
(* Blocks are 0..N, 0 is the genesis block; all blocks carry equal work,   *)
(* so "most work" is "highest".  Validity levels follow Core: 2 = header   *)
(* tree, 3 = transactions (data received), 5 = scripts (was connected).    *)
(***************************************************************************)
EXTENDS Integers, Sequences, FiniteSets, TLC, Json, ChainSel

CONSTANTS N

Blk == 0..N
VARIABLES parent, known, data, valid, failed, tip
vars == <<parent, known, data, valid, failed, tip>>

RECURSIVE Height(_)
Height(b) == IF b = 0 THEN 0 ELSE 1 + Height(parent[b])
RECURSIVE Anc(_)
Anc(b) == IF b = 0 THEN {0} ELSE {b} \cup Anc(parent[b])

Init == /\ parent = [b \in Blk |-> 0] /\ known = {0} /\ data = {0}
        /\ valid = [b \in Blk |-> IF b = 0 THEN 5 ELSE 0] /\ failed = {} /\ tip = 0

\* a header is announced (blocks are named in order of arrival; a header on a failed parent is refused)
AcceptHeader(b, p) == /\ b \notin known /\ b = Cardinality(known) /\ p \in known /\ p \notin failed
                      /\ parent' = [parent EXCEPT ![b] = p] /\ known' = known \cup {b}
                      /\ valid' = [valid EXCEPT ![b] = 2] /\ UNCHANGED <<data, failed, tip>>

\* block data arrives (possibly before the parent's data: stored, but no candidate yet)
AcceptBlock(b) == /\ b \in known \ data /\ b \notin failed
                  /\ data' = data \cup {b} /\ valid' = [valid EXCEPT ![b] = IF @ > 3 THEN @ ELSE 3] /\ UNCHANGED <<parent, known, failed, tip>>

\* pruning: the stored data of a block that is not on the active chain is deleted (its blk file was removed); the record keeps
\* its validity level and transaction count, only BLOCK_HAVE_DATA is cleared
Prune(b) == /\ b \in data /\ b \notin Anc(tip)
            /\ data' = data \ {b} /\ UNCHANGED <<parent, known, valid, failed, tip>>

\* candidates for the tip: data for the whole ancestry, nothing failed
Cand == {b \in data : Anc(b) \subseteq data /\ Anc(b) \cap failed = {}}
Better == {c \in Cand : Height(c) > Height(tip)}

ForkPoint(c) == CHOOSE a \in Anc(c) \cap Anc(tip) : \A a2 \in Anc(c) \cap Anc(tip) : Height(a2) <= Height(a)

\* ActivateBestChain, one step: disconnect down to the fork point, then connect one block at a time
DisconnectToFork(c) == /\ c \in Better /\ tip \notin Anc(c)
                       /\ tip' = ForkPoint(c) /\ UNCHANGED <<parent, known, data, valid, failed>>
NextToward(c) == CHOOSE x \in Anc(c) : x # 0 /\ parent[x] = tip /\ x \notin Anc(tip)
ConnectOk(c) == /\ c \in Better /\ tip \in Anc(c)
                /\ tip' = NextToward(c) /\ valid' = [valid EXCEPT ![NextToward(c)] = 5]
                /\ UNCHANGED <<parent, known, data, failed>>
\* validation of the next block fails: it and all its known descendants are marked failed
ConnectFail(c) == /\ c \in Better /\ tip \in Anc(c)
                  /\ failed' = failed \cup {x \in known : NextToward(c) \in Anc(x)}
                  /\ UNCHANGED <<parent, known, data, valid, tip>>

\* `invalidateblock b` on a block of the active chain: the chain is rewound to b's parent and b is flagged; whether the flag has
\* reached b's descendants on disk depends on the release and on when the index was flushed (any subset of them)
Invalidate(b, F) == /\ b \in Anc(tip) /\ b # 0 /\ Better = {}
                    /\ F \subseteq {x \in known : b \in Anc(x) /\ x # b}
                    /\ failed' = failed \cup {b} \cup F /\ tip' = parent[b]
                    /\ UNCHANGED <<parent, known, data, valid>>

Next == \/ \E b \in Blk, p \in Blk : AcceptHeader(b, p)
        \/ \E b \in Blk : \E F \in SUBSET Blk : Invalidate(b, F)
        \/ \E b \in Blk : AcceptBlock(b) \/ Prune(b)
        \/ \E c \in Blk : DisconnectToFork(c) \/ ConnectOk(c) \/ ConnectFail(c)
Spec == Init /\ [][Next]_vars

-----------------------------------------------------------------------------
\* The index the node has on disk in this state (file/off are irrelevant to selection)
Index == [b \in known |-> [id |-> b, h |-> Height(b), prev |-> IF b = 0 THEN -1 ELSE parent[b],
                           data |-> b \in data, valid |-> valid[b], failed |-> b \in failed, file |-> 0, off |-> b]]
ActiveChain == [h \in 0..Height(tip) |-> CHOOSE b \in Anc(tip) : Height(b) = h]

\* Environment assumptions under which "the active chain" is determined by the index alone:
\* the node is not in the middle of an activation, and no second fully validated block ties with the tip
Quiescent == Better = {}
Validated == {b \in data \ failed : valid[b] = 5 /\ Anc(b) \cap failed = {}}      \* (descendants of a failed block do not compete)
UniqueBestTip == \A b \in Validated : b # tip => Height(b) < Height(tip)
Judged == Quiescent /\ UniqueBestTip

\* C04 at design level: the parser's rule returns exactly the active chain, for every history
SelectsActive == Judged =>
                   LET tips == BestTips(Index) IN
                     /\ tips = {tip}
                     /\ LET ch == ChainOf(Index, tip) IN
                          DOMAIN ch = DOMAIN ActiveChain /\ \A h \in DOMAIN ch : ch[h].id = ActiveChain[h]
\* node sanity
TipValid == tip \in Cand /\ valid[tip] = 5 /\ \A b \in Anc(tip) : valid[b] = 5

Emit == Judged => PrintT(<<"REPLAY", ToJson([recs |-> {[id |-> b, h |-> Height(b), prev |-> Index[b].prev, data |-> b \in data,
                                                       valid |-> valid[b], failed |-> b \in failed] : b \in known},
                                             tip |-> tip, active |-> [i \in 1..(Height(tip) + 1) |-> ActiveChain[i - 1]]])>>)
=============================================================================
