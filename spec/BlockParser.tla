--------------------------- MODULE BlockParser ---------------------------
(***************************************************************************)
(* One run of rusty-blockparser as a state machine, at the grain of the    *)
(* code: main.rs (callback construction, exit), parser/index.rs (index     *)
(* scan, chain selection, derive/trim), parser/blkfile.rs + chain.rs       *)
(* (file discovery, lookup, lazy open, seek+read, close, verify),          *)
(* parser/mod.rs (driver loop) and the output protocol of the file         *)
(* producing callbacks (tmp create, buffered rows, flush, rename).         *)
(*                                                                         *)
(* The scenario (data directory, options, environment faults) is the       *)
(* variable sc, fixed by Begin and never changed afterwards, so that the   *)
(* same actions serve bounded model checking (MC_*.tla choose sc from a    *)
(* set) and trace validation (Trace_Run.tla takes it from the trace).      *)
(*                                                                         *)
(* The specification describes the design under which the listed           *)
(* properties hold.  Where the pinned code deviated, the as-is behaviour   *)
(* is kept as a named alternative enabled by membership in AsIs; it is     *)
(* used only to let TLC exhibit the counterexample.                        *)
(***************************************************************************)
EXTENDS Integers, Sequences, FiniteSets, TLC, ChainSel

CONSTANTS
  Scenarios,   \* set of scenario records a behaviour may start from
  Cap,         \* writer buffer capacity in rows (4 MB in the code)
  AsIs         \* subset of {"ExclusiveUpperBound","LastInsertWins","RenameBeforeFlush"}

NONE == -1

VARIABLES
  sc,          \* the scenario: see ScenarioOK
  pc,          \* control point of the run
  scan,        \* number of index records scanned so far
  seen,        \* id -> record : every 'b' record scanned
  lastAt,      \* height -> id : as-is last-insert-wins map (only used when "LastInsertWins" \in AsIs)
  idx,         \* height -> record : the retained chain index
  fileMaxH,    \* file -> highest height of the selected chain stored in it
  maxH,        \* last height to process
  cur,         \* next height to fetch
  open,        \* set of blk files currently open
  blk,         \* id of the block just read (NONE outside a fetch)
  delivered,   \* sequence of <<height, id>> handed to the callback
  tmp,         \* tmp file name -> [disk |-> rows on disk, buf |-> rows buffered]  (files of this run)
  fin,         \* final file name -> rows on disk                                   (files of this run)
  rows,        \* rows produced so far per output file of the callback
  exit,        \* NONE while running, else the exit status class: 0, 1, 137 (killed)
  errH         \* height reported with a read/verify failure, NONE otherwise

vars == <<sc, pc, scan, seen, lastAt, idx, fileMaxH, maxH, cur, open, blk, delivered, tmp, fin, rows, exit, errH>>

-----------------------------------------------------------------------------
(* Scenario shape                                                          *)
(*  recs    : sequence of index records in LevelDB key order, each         *)
(*            [id, h, prev, data, valid, failed, file, off]                *)
(*  store   : set of [file, off, id] - the readable blocks on disk         *)
(*  files   : set of blk file numbers present in the directory             *)
(*  facts   : id -> [prev, merkleOk] - what verification sees in a block   *)
(*  genesis : id of the coin's genesis block                               *)
(*  start, end (NONE = no --end), verify, cb                               *)
(*  limit   : rows each output file can hold before writes fail (NONE=inf) *)
(*  pre     : set of file names already in the dump folder                 *)

FileCallbacks == {"csvdump", "unspentcsvdump", "balances"}
Callbacks == FileCallbacks \cup {"simplestats", "opreturn"}

OutFiles(cb) == CASE cb = "csvdump" -> {"blocks", "transactions", "tx_in", "tx_out"}
                  [] cb = "unspentcsvdump" -> {"unspent"}
                  [] cb = "balances" -> {"balances"}
                  [] OTHER -> {}

TmpName(f) == f \o ".csv.tmp"

\* as-is: one record per height, later key wins, filter "any of VALID_CHAIN|HAVE_DATA bits"
AsIsKeeps(r) == r.data \/ r.valid >= 4

-----------------------------------------------------------------------------
(* What a read at (file, off) returns                                      *)
StoreAt(f, o) == {e \in sc.store : e.file = f /\ e.off = o}
Readable(f, o) == f \in sc.files /\ StoreAt(f, o) # {}
BlockAt(f, o) == (CHOOSE e \in StoreAt(f, o) : TRUE).id

VerifyOk(h, b) == /\ sc.facts[b].merkleOk
                  /\ (h = 0 => b = sc.genesis)
                  /\ (h > 0 => (h - 1) \in DOMAIN idx /\ sc.facts[b].prev = idx[h - 1].id)

LastDelivered == IF cur = 0 THEN 0 ELSE cur - 1     \* cur_height.saturating_sub(1)
FinalName(f) == <<f, sc.start, LastDelivered>>      \* "<f>-<start>-<last>.csv"

-----------------------------------------------------------------------------
Init == /\ sc = [cb |-> "none"] /\ pc = "idle" /\ scan = 0 /\ seen = <<>> /\ lastAt = <<>> /\ idx = <<>>
        /\ fileMaxH = <<>> /\ maxH = NONE /\ cur = 0 /\ open = {} /\ blk = NONE /\ delivered = <<>>
        /\ tmp = <<>> /\ fin = <<>> /\ rows = <<>> /\ exit = NONE /\ errH = NONE

Begin(s) == /\ pc = "idle"
            /\ sc' = s /\ pc' = "tmp" /\ cur' = s.start
            /\ rows' = [f \in OutFiles(s.cb) |-> 0]
            /\ UNCHANGED <<scan, seen, lastAt, idx, fileMaxH, maxH, open, blk, delivered, tmp, fin, exit, errH>>

\* the same, from any state (a batch of recorded runs is validated back to back)
BeginFresh(s) == /\ sc' = s /\ pc' = "tmp" /\ cur' = s.start /\ rows' = [f \in OutFiles(s.cb) |-> 0]
                 /\ scan' = 0 /\ seen' = <<>> /\ lastAt' = <<>> /\ idx' = <<>> /\ fileMaxH' = <<>> /\ maxH' = NONE
                 /\ open' = {} /\ blk' = NONE /\ delivered' = <<>> /\ tmp' = <<>> /\ fin' = <<>> /\ exit' = NONE /\ errH' = NONE

Fail(h) == /\ pc' = "done" /\ exit' = 1 /\ errH' = h

\* Start-up failures (main.rs parse_args / main): an unacceptable range is refused before anything is created; a dump
\* folder that cannot be written makes the construction of the callback fail; a missing data directory or an unreadable
\* index is noticed only afterwards, when the callback's tmp files already exist.  sc.startup (optional field) is one of
\* "ok", "badrange", "nodump", "nodir", "noindex".
Startup == IF "startup" \in DOMAIN sc THEN sc.startup ELSE "ok"
RejectArgs == /\ pc = "tmp" /\ Startup = "badrange" /\ Fail(NONE)
              /\ UNCHANGED <<sc, scan, seen, lastAt, idx, fileMaxH, maxH, cur, open, blk, delivered, tmp, fin, rows>>
CreateTmpFails == /\ pc = "tmp" /\ Startup = "nodump" /\ sc.cb \in FileCallbacks /\ Fail(NONE)
                  /\ UNCHANGED <<sc, scan, seen, lastAt, idx, fileMaxH, maxH, cur, open, blk, delivered, tmp, fin, rows>>
OpenStorageFails == /\ pc = "scan" /\ scan = 0 /\ Startup \in {"nodir", "noindex"} /\ Fail(NONE)
                    /\ UNCHANGED <<sc, scan, seen, lastAt, idx, fileMaxH, maxH, cur, open, blk, delivered, tmp, fin, rows>>

\* main.rs:206 -> Callback::new : *.csv.tmp created (truncated) before anything is read
CreateTmp == /\ pc = "tmp" /\ Startup # "badrange" /\ ~(Startup = "nodump" /\ sc.cb \in FileCallbacks)
             /\ tmp' = [f \in OutFiles(sc.cb) |-> [disk |-> 0, buf |-> 0]]
             /\ pc' = "scan"
             /\ UNCHANGED <<sc, scan, seen, lastAt, idx, fileMaxH, maxH, cur, open, blk, delivered, fin, rows, exit, errH>>

\* an entry of the index database is a block record iff its key starts with 'b' (entries without a `key` field are block records)
IsBlockKey(r) == "key" \notin DOMAIN r \/ r.key = "b"
\* index.rs get_block_index: one database entry, in key order
ScanRecord == /\ pc = "scan" /\ scan < Len(sc.recs) /\ Startup \notin {"nodir", "noindex"}
              /\ LET r == sc.recs[scan + 1] IN
                   IF IsBlockKey(r)
                   THEN /\ seen' = [id \in DOMAIN seen \cup {r.id} |-> IF id = r.id THEN r ELSE seen[id]]
                        /\ lastAt' = IF AsIsKeeps(r)
                                     THEN [h \in DOMAIN lastAt \cup {r.h} |-> IF h = r.h THEN r.id ELSE lastAt[h]]
                                     ELSE lastAt
                   ELSE UNCHANGED <<seen, lastAt>>          \* 'f', 'l', 'R', 'F' ... keys of the node are not block records
              /\ scan' = scan + 1
              /\ UNCHANGED <<sc, pc, idx, fileMaxH, maxH, cur, open, blk, delivered, tmp, fin, rows, exit, errH>>

Selected == IF "LastInsertWins" \in AsIs
            THEN [h \in DOMAIN lastAt |-> seen[lastAt[h]]]
            ELSE LET mk(tips) == IF tips = {} THEN <<>> ELSE ChainOf(seen, CHOOSE t \in tips : TRUE)
                 IN Force(BestTips(seen), mk)

\* index.rs ChainIndex::new : select chain, per-file maximum, clamp by --end, trim by --start/--end
SelectChain == /\ pc = "scan" /\ scan = Len(sc.recs) /\ Startup \notin {"nodir", "noindex"}
               /\ \E chain \in {Selected} :      \* (bound, so that the selection is computed once)
                    IF DOMAIN chain = {} THEN /\ Fail(NONE)
                                              /\ UNCHANGED <<idx, fileMaxH, maxH>>
                    ELSE \E known \in {MaxOf(DOMAIN chain)} :
                         LET mh == IF sc.end # NONE /\ sc.end < known THEN sc.end ELSE known
                             keep == IF sc.start = 0 /\ sc.end = NONE THEN DOMAIN chain
                                     ELSE {h \in DOMAIN chain : h >= sc.start - 1 /\ h <= mh}
                         IN /\ idx' = [h \in keep |-> chain[h]]
                            /\ fileMaxH' = FileMax(chain)
                            /\ maxH' = mh
                            /\ pc' = "files" /\ UNCHANGED <<exit, errH>>
               /\ UNCHANGED <<sc, scan, seen, lastAt, cur, open, blk, delivered, tmp, fin, rows>>

\* blkfile.rs from_path : "No blk files found!" ends the run
DiscoverFiles == /\ pc = "files"
                 /\ IF sc.files = {} THEN Fail(NONE) ELSE pc' = "start" /\ UNCHANGED <<exit, errH>>
                 /\ UNCHANGED <<sc, scan, seen, lastAt, idx, fileMaxH, maxH, cur, open, blk, delivered, tmp, fin, rows>>

OnStart == /\ pc = "start" /\ pc' = "lookup"
           /\ UNCHANGED <<sc, scan, seen, lastAt, idx, fileMaxH, maxH, cur, open, blk, delivered, tmp, fin, rows, exit, errH>>

InRange == IF "ExclusiveUpperBound" \in AsIs THEN cur < maxH ELSE cur <= maxH

\* parser/mod.rs loop head + chain.rs get_block lookup
Lookup == /\ pc = "lookup"
          /\ pc' = IF InRange /\ cur \in DOMAIN idx THEN "open" ELSE "complete"
          /\ UNCHANGED <<sc, scan, seen, lastAt, idx, fileMaxH, maxH, cur, open, blk, delivered, tmp, fin, rows, exit, errH>>

\* blkfile.rs open : lazy, a missing file is a read error reported with the height
Open == /\ pc = "open"
        /\ LET f == idx[cur].file IN
             IF f \notin sc.files THEN Fail(cur) /\ UNCHANGED open
             ELSE /\ open' = open \cup {f} /\ pc' = "read" /\ UNCHANGED <<exit, errH>>
        /\ UNCHANGED <<sc, scan, seen, lastAt, idx, fileMaxH, maxH, cur, blk, delivered, tmp, fin, rows>>

\* blkfile.rs read_block : seek(off-4), size prefix, decode
SeekRead == /\ pc = "read"
            /\ LET f == idx[cur].file  o == idx[cur].off IN
                 IF Readable(f, o) THEN /\ blk' = BlockAt(f, o) /\ pc' = "close" /\ UNCHANGED <<exit, errH>>
                 ELSE Fail(cur) /\ UNCHANGED blk
            /\ UNCHANGED <<sc, scan, seen, lastAt, idx, fileMaxH, maxH, cur, open, delivered, tmp, fin, rows>>

OpenAfter(o, f, h) == IF h >= fileMaxH[f] THEN o \ {f} ELSE o

\* chain.rs : close the file once its highest block has been read
CloseIfLast == /\ pc = "close"
               /\ open' = OpenAfter(open, idx[cur].file, cur)
               /\ pc' = IF sc.verify THEN "verify" ELSE "deliver"
               /\ UNCHANGED <<sc, scan, seen, lastAt, idx, fileMaxH, maxH, cur, blk, delivered, tmp, fin, rows, exit, errH>>

Verify == /\ pc = "verify"
          /\ IF VerifyOk(cur, blk) THEN pc' = "deliver" /\ UNCHANGED <<exit, errH>> ELSE Fail(cur)
          /\ UNCHANGED <<sc, scan, seen, lastAt, idx, fileMaxH, maxH, cur, open, blk, delivered, tmp, fin, rows>>

\* rows a delivered block adds to each per-block output file (1 unit per block; csvdump only)
\* a write goes to the buffer; when the buffer would overflow it is flushed first (BufWriter)
WriteRow(w, limit) ==
  IF w.buf + 1 > Cap
  THEN IF limit # NONE /\ w.disk + w.buf > limit
       THEN [ok |-> FALSE, w |-> [disk |-> limit, buf |-> 0]]
       ELSE [ok |-> TRUE, w |-> [disk |-> w.disk + w.buf, buf |-> 1]]
  ELSE [ok |-> TRUE, w |-> [disk |-> w.disk, buf |-> w.buf + 1]]

Deliver == /\ pc = "deliver"
           /\ delivered' = Append(delivered, <<cur, blk>>)
           /\ blk' = NONE
           /\ IF sc.cb = "csvdump"
              THEN LET res == [f \in DOMAIN tmp |-> WriteRow(tmp[f], sc.limit)] IN
                     /\ rows' = [f \in DOMAIN rows |-> rows[f] + 1]
                     /\ tmp' = [f \in DOMAIN tmp |-> res[f].w]
                     /\ IF \A f \in DOMAIN tmp : res[f].ok
                        THEN /\ cur' = cur + 1 /\ pc' = "lookup" /\ UNCHANGED <<exit, errH>>
                        ELSE /\ Fail(NONE) /\ UNCHANGED cur
              ELSE /\ cur' = cur + 1 /\ pc' = "lookup" /\ UNCHANGED <<tmp, rows, exit, errH>>
           /\ UNCHANGED <<sc, scan, seen, lastAt, idx, fileMaxH, maxH, open, fin>>

\* k successive row writes through one buffered writer; stops at the first failing flush
RECURSIVE WriteN(_, _, _)
WriteN(w, k, limit) == IF k = 0 THEN [ok |-> TRUE, w |-> w]
                       ELSE LET r == WriteRow(w, limit) IN IF r.ok THEN WriteN(r.w, k - 1, limit) ELSE r

\* on_complete of unspentcsvdump / balances: all rows are produced now (header + one per entry),
\* abstracted to the header plus one row per delivered block
ProduceSummary == /\ pc = "complete"
                  /\ IF sc.cb \in {"unspentcsvdump", "balances"}
                     THEN LET n == Len(delivered) + 1
                              f == CHOOSE x \in DOMAIN tmp : TRUE
                              r == WriteN(tmp[f], n, sc.limit)
                          IN /\ rows' = [rows EXCEPT ![f] = n]
                             /\ tmp' = [tmp EXCEPT ![f] = r.w]
                             /\ IF r.ok THEN pc' = "finish" /\ UNCHANGED <<exit, errH>> ELSE Fail(NONE)
                     ELSE /\ pc' = IF sc.cb \in FileCallbacks THEN "finish" ELSE "exit"
                          /\ UNCHANGED <<tmp, rows, exit, errH>>
                  /\ UNCHANGED <<sc, scan, seen, lastAt, idx, fileMaxH, maxH, cur, open, blk, delivered, fin>>

Unflushed == {f \in DOMAIN tmp : tmp[f].buf > 0}
Renamed == {fin[n] : n \in DOMAIN fin}

\* on_complete of the file callbacks, phase "finish": every writer is flushed explicitly and its file
\* renamed afterwards.  The order among the flushes and among the renames is free, but no file is
\* renamed while any writer still buffers rows: a failing flush must leave no final-named file.
FlushFile(f) == /\ pc = "finish" /\ f \in Unflushed \ Renamed
                /\ IF sc.limit # NONE /\ tmp[f].disk + tmp[f].buf > sc.limit
                   THEN /\ tmp' = [tmp EXCEPT ![f] = [disk |-> sc.limit, buf |-> 0]] /\ Fail(NONE)
                   ELSE /\ tmp' = [tmp EXCEPT ![f] = [disk |-> tmp[f].disk + tmp[f].buf, buf |-> 0]]
                        /\ UNCHANGED <<pc, exit, errH>>
                /\ UNCHANGED <<sc, scan, seen, lastAt, idx, fileMaxH, maxH, cur, open, blk, delivered, fin, rows>>

\* fs::rename(tmp, final): the final name now designates whatever is on disk in the tmp file
RenameFile(f) == /\ pc = "finish" /\ f \in DOMAIN tmp \ Renamed
                 /\ (Unflushed = {} \/ "RenameBeforeFlush" \in AsIs)   \* every flush precedes every rename
                 /\ fin' = [n \in DOMAIN fin \cup {FinalName(f)} |-> IF n = FinalName(f) THEN f ELSE fin[n]]
                 /\ UNCHANGED <<sc, pc, scan, seen, lastAt, idx, fileMaxH, maxH, cur, open, blk, delivered, tmp, rows, exit, errH>>

FinishDone == /\ pc = "finish" /\ Renamed = DOMAIN tmp
              /\ pc' = IF "RenameBeforeFlush" \in AsIs THEN "drop" ELSE "exit"
              /\ UNCHANGED <<sc, scan, seen, lastAt, idx, fileMaxH, maxH, cur, open, blk, delivered, tmp, fin, rows, exit, errH>>

\* as-is only: the writers are flushed implicitly when dropped after main returns; errors are swallowed
DropFlush(f) == /\ pc = "drop" /\ f \in Unflushed
                /\ tmp' = [tmp EXCEPT ![f] = IF sc.limit # NONE /\ tmp[f].disk + tmp[f].buf > sc.limit
                                              THEN [disk |-> sc.limit, buf |-> 0]
                                              ELSE [disk |-> tmp[f].disk + tmp[f].buf, buf |-> 0]]
                /\ UNCHANGED <<sc, pc, scan, seen, lastAt, idx, fileMaxH, maxH, cur, open, blk, delivered, fin, rows, exit, errH>>

ExitOk == /\ \/ pc = "exit"
             \/ pc = "drop" /\ Unflushed = {}
          /\ pc' = "done" /\ exit' = 0
          /\ UNCHANGED <<sc, scan, seen, lastAt, idx, fileMaxH, maxH, cur, open, blk, delivered, tmp, fin, rows, errH>>

\* SIGKILL / power loss at any point: nothing buffered reaches the disk
Kill == /\ pc \notin {"idle", "done"} /\ sc.kill
        /\ pc' = "done" /\ exit' = 137
        /\ UNCHANGED <<sc, scan, seen, lastAt, idx, fileMaxH, maxH, cur, open, blk, delivered, tmp, fin, rows, errH>>

FlushSome == \E f \in DOMAIN tmp : FlushFile(f)
RenameSome == \E f \in DOMAIN tmp : RenameFile(f)
DropSome == \E f \in DOMAIN tmp : DropFlush(f)

Step == \/ RejectArgs \/ CreateTmpFails \/ OpenStorageFails \/ CreateTmp \/ ScanRecord \/ SelectChain \/ DiscoverFiles \/ OnStart \/ Lookup \/ Open \/ SeekRead
        \/ CloseIfLast \/ Verify \/ Deliver \/ ProduceSummary \/ FinishDone \/ ExitOk \/ Kill
        \/ FlushSome \/ RenameSome \/ DropSome

Start == pc = "idle" /\ \E s \in Scenarios : Begin(s)
Next == Start \/ Step

Spec == Init /\ [][Next]_vars
FairSpec == Spec /\ WF_vars(Next)

-----------------------------------------------------------------------------
(* Ground truth a scenario carries (used by the properties, not by the run) *)

Done == pc = "done"
Heights == {delivered[i][1] : i \in DOMAIN delivered}

\* C02 ------------------------------------------------------------------
\* sc.tip = height of the active tip (ground truth supplied with the scenario)
ExpectedLast == IF sc.end # NONE /\ sc.end < sc.tip THEN sc.end ELSE sc.tip
ExpectedHeights == sc.start .. ExpectedLast

DeliverNext == [][pc = "deliver" /\ pc' = "lookup" =>
                    /\ delivered' = Append(delivered, <<cur, blk>>)
                    /\ (Len(delivered) = 0 => cur = sc.start)
                    /\ (Len(delivered) > 0 => cur = delivered[Len(delivered)][1] + 1)]_vars

ExactRange == (Done /\ exit = 0) => /\ Heights = ExpectedHeights
                                     /\ Len(delivered) = Cardinality(ExpectedHeights)
                                     /\ \A i \in 1..Len(delivered) : delivered[i][1] = sc.start + i - 1

Names == (Done /\ exit = 0 /\ sc.start <= sc.tip) =>
            DOMAIN fin = {<<f, sc.start, ExpectedLast>> : f \in OutFiles(sc.cb)}

\* C03 / C04 --------------------------------------------------------------
\* sc.active = ground-truth active chain, height -> id
RightBlock == \A i \in DOMAIN delivered :
                 LET h == delivered[i][1] IN
                   h \in DOMAIN idx /\ delivered[i][2] = BlockAt(idx[h].file, idx[h].off)

OnlyActive == \A i \in DOMAIN delivered :
                 delivered[i][1] \in DOMAIN sc.active /\ delivered[i][2] = sc.active[delivered[i][1]]

Linked == \A i \in DOMAIN delivered : i > 1 => sc.facts[delivered[i][2]].prev = delivered[i - 1][2]

\* C03: database keys that are not block records never reach the chain index
IgnoreForeignKeys == \A id \in DOMAIN seen : \E i \in DOMAIN sc.recs : IsBlockKey(sc.recs[i]) /\ sc.recs[i].id = id

\* C09 ------------------------------------------------------------------
\* the run succeeds iff every block of the range is consistent; otherwise it stops at the first bad height
\* sc.indexed = height -> id of the index record of the active chain (the hash the index knows the block by);
\* sc.active = height -> id of what is actually stored there (differs from it when the stored block was altered)
Indexed(h) == IF "indexed" \in DOMAIN sc THEN sc.indexed[h] ELSE sc.active[h]
ConsistentAt(h) == h \in DOMAIN sc.active /\
                   LET b == sc.active[h] IN
                     /\ sc.facts[b].merkleOk
                     /\ (h = 0 => b = sc.genesis)
                     /\ (h > 0 => (h - 1) \in DOMAIN sc.active /\ sc.facts[b].prev = Indexed(h - 1))
BadHeights == {h \in ExpectedHeights : ~ConsistentAt(h)}
VerifyIff == (Done /\ sc.verify /\ exit # 137) =>
               /\ (exit = 0 <=> BadHeights = {})
               /\ (BadHeights # {} => errH = MinOf(BadHeights) /\ fin = <<>>)

\* C10 ------------------------------------------------------------------
Complete(f) == tmp[f].buf = 0 /\ tmp[f].disk = rows[f]
\* at every instant: a final-named file of this run holds its complete content
FinalNeverPartial == \A n \in DOMAIN fin : Complete(fin[n])
ExitZeroComplete == (Done /\ exit = 0) =>
                       /\ \A f \in OutFiles(sc.cb) : FinalName(f) \in DOMAIN fin /\ Complete(f)
                       /\ Cardinality(DOMAIN fin) = Cardinality(OutFiles(sc.cb))
FailureLeavesNone == (Done /\ exit = 1) => fin = <<>>      \* (a kill may fall between two renames: those finals are complete)
\* an unreadable block of the range is reported with its height
ReadFaultReported == (Done /\ exit = 1 /\ errH # NONE) => errH \in ExpectedHeights

\* start-up failures end the run with a non-zero status, no final-named file and - when refused early - no tmp file
StartupFails == (Done /\ Startup # "ok" /\ exit # 137 /\ ~(Startup = "nodump" /\ sc.cb \notin FileCallbacks)) =>
                   /\ exit = 1 /\ fin = <<>> /\ delivered = <<>>
                   /\ (Startup \in {"badrange", "nodump"} => tmp = <<>>)

\* C17 ------------------------------------------------------------------
\* after a fetch every open file still holds a block of the selected chain above the current height
OpenNeeded == pc \in {"verify", "deliver", "lookup"} =>
                 \A f \in open : f \in DOMAIN fileMaxH /\ fileMaxH[f] > (IF pc = "lookup" THEN cur - 1 ELSE cur)
\* number of files whose height span covers the current height (plus the one being read)
Spanning(h) == {f \in DOMAIN fileMaxH : \E g \in DOMAIN idx : idx[g].file = f /\ g <= h /\ h < fileMaxH[f]}
OpenBound == pc \in {"verify", "deliver"} => Cardinality(open) <= Cardinality(Spanning(cur))

TypeOK == /\ pc \in {"idle", "tmp", "scan", "files", "start", "lookup", "open", "read", "close", "verify", "deliver",
                     "complete", "finish", "drop", "exit", "done"}
          /\ exit \in {NONE, 0, 1, 137}
          /\ (exit # NONE <=> pc = "done")
=============================================================================
