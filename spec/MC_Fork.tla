------------------------------ MODULE MC_Fork ------------------------------
(* C04 on the run machine: every index a node history can leave behind (exported by CoreIndex.tla as JSON,  *)
(* one object per judged state) is scanned in several LevelDB key orders; the run must deliver exactly     *)
(* the node's active chain.                                                                                *)
EXTENDS BlockParser, Json, IOUtils, SequencesExt

Forks == ndJsonDeserialize(IOEnv.FORKS)      \* sequence of [recs (set as array), tip, active (array by height+1)]

RecOf(r) == [id |-> r.id, h |-> r.h, prev |-> r.prev, data |-> r.data, valid |-> r.valid, failed |-> r.failed,
             file |-> r.id % 2, off |-> r.id]

\* key orders: by id ascending / descending, active chain first / last
Orders(F) ==
  LET rs == F.recs
      n == Len(rs)
      act == {F.active[i] : i \in DOMAIN F.active}
      asc == SortSeq(rs, LAMBDA a, b : a.id < b.id)
      desc == SortSeq(rs, LAMBDA a, b : a.id > b.id)
      afirst == SelectSeq(asc, LAMBDA r : r.id \in act) \o SelectSeq(asc, LAMBDA r : r.id \notin act)
      alast == SelectSeq(desc, LAMBDA r : r.id \notin act) \o SelectSeq(desc, LAMBDA r : r.id \in act)
  IN {asc, desc, afirst, alast}

Scen(F, order, cb, s) ==
  LET ids == {F.recs[i].id : i \in DOMAIN F.recs}
      byId == [b \in ids |-> CHOOSE r \in ToSet(F.recs) : r.id = b]
  IN [recs |-> [i \in DOMAIN order |-> RecOf(order[i])],
      store |-> {[file |-> b % 2, off |-> b, id |-> b] : b \in {x \in ids : byId[x].data}},
      files |-> {0, 1},
      facts |-> [b \in ids |-> [prev |-> byId[b].prev, merkleOk |-> TRUE]],
      genesis |-> 0, start |-> s, end |-> NONE, verify |-> TRUE, cb |-> cb, limit |-> NONE, kill |-> FALSE,
      tip |-> Len(F.active) - 1, active |-> [h \in 0..(Len(F.active) - 1) |-> F.active[h + 1]]]

\* every --start from 0 to two above the active tip: selection must not depend on the range (nothing is delivered above the tip)
MCScen == LET mk(FS) == UNION {{Scen(FS[i], o, "csvdump", s) : o \in Orders(FS[i]), s \in 0..(Len(FS[i].active) + 1)} : i \in DOMAIN FS}
          IN Force(Forks, mk)
=============================================================================
