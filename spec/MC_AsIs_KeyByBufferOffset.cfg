CONSTANTS
  FileLen = 10
  Bs = {2, 3, 4, 5}
  Ks = {1, 2, 3, 5}
  MaxOps = 3
  MaxRead = 6
  KeyAt = "buf"
SPECIFICATION Spec
INVARIANTS PosTrue Plain BufferSane Emit
CHECK_DEADLOCK FALSE
