-------------------------------- MODULE Utxo --------------------------------
(***************************************************************************)
(* The UTXO bookkeeping shared by unspentcsvdump and balances              *)
(* (callbacks/common.rs remove_unspents / insert_unspents, and the two     *)
(* on_complete dumps).  C07, C08.                                          *)
(*                                                                         *)
(* A history is the sequence of transactions delivered so far.  It is      *)
(* built incrementally (AddTx chooses the next transaction, SpendInputs    *)
(* and CreateOutputs apply it as the code does), so that every prefix of   *)
(* every history is a reachable state and the operational map `utxo` is    *)
(* compared with the declarative Unspent(hist) at every step.              *)
(*                                                                         *)
(* Outpoints are <<txid, index>>.  Transaction ids: 1..MaxTx are the       *)
(* positions in the history (a duplicate transaction reuses the id of the  *)
(* one it copies: identical content, identical txid); 0 is a transaction   *)
(* outside the processed range.                                            *)
(***************************************************************************)
EXTENDS Integers, Sequences, FiniteSets, TLC

CONSTANTS MaxTx,      \* transactions per history
          MaxBlk,     \* blocks they are spread over
          MaxIn,      \* inputs per transaction (at least one)
          MaxOut,     \* outputs per transaction
          Addrs,      \* addresses; "none" marks an output without address
          Vals        \* output values (in units)

VARIABLES hist,       \* transactions applied: [id, blk, ins, outs]
          utxo,       \* outpoint -> [h, val, addr]
          blk,        \* height of the block being processed
          phase,      \* "idle" | "spend" | "create"
          pend        \* the transaction in flight
vars == <<hist, utxo, blk, phase, pend>>

TxIds == 0..MaxTx
OutPoints == TxIds \X (0..(MaxOut - 1))
Outs == [addr : Addrs \cup {"none"}, val : Vals]
SeqsUpTo(S, n) == UNION {[1..k -> S] : k \in 0..n}
InLists == {s \in SeqsUpTo(OutPoints, MaxIn) : Len(s) >= 1}
OutLists == SeqsUpTo(Outs, MaxOut)

Init == hist = <<>> /\ utxo = <<>> /\ blk = 0 /\ phase = "idle" /\ pend = <<>>

\* the next transaction of the chain: same block or the next one; fresh content or a copy of an earlier transaction
AddTx(ins, outs, nb) ==
  /\ phase = "idle" /\ Len(hist) < MaxTx /\ nb \in {blk, blk + 1} /\ nb < MaxBlk
  /\ LET id == Len(hist) + 1 IN
       /\ \A i \in DOMAIN ins : ins[i][1] # id        \* a transaction cannot reference itself (its id hashes its inputs)
       /\ pend' = [id |-> id, blk |-> nb, ins |-> ins, outs |-> outs, k |-> 1]
  /\ blk' = nb /\ phase' = "spend" /\ UNCHANGED <<hist, utxo>>
AddDuplicate(k, nb) ==
  /\ phase = "idle" /\ Len(hist) < MaxTx /\ nb \in {blk, blk + 1} /\ nb < MaxBlk /\ k \in DOMAIN hist
  /\ pend' = [id |-> hist[k].id, blk |-> nb, ins |-> hist[k].ins, outs |-> hist[k].outs, k |-> 1]
  /\ blk' = nb /\ phase' = "spend" /\ UNCHANGED <<hist, utxo>>

\* effects on the map, shared with the trace specification
SpendEff(U, o) == [x \in DOMAIN U \ {o} |-> U[x]]
CreateEff(U, o, e) == [x \in DOMAIN U \cup {o} |-> IF x = o THEN e ELSE U[x]]

\* common.rs remove_unspents: the outpoint of every input is removed, one after the other (absent ones are ignored)
SpendOne ==
  /\ phase = "spend"
  /\ IF pend.k <= Len(pend.ins)
     THEN /\ utxo' = SpendEff(utxo, pend.ins[pend.k]) /\ pend' = [pend EXCEPT !.k = @ + 1] /\ UNCHANGED phase
     ELSE /\ phase' = "create" /\ pend' = [pend EXCEPT !.k = 1] /\ UNCHANGED utxo
  /\ UNCHANGED <<hist, blk>>

\* common.rs insert_unspents: every output with an address is inserted under txid || index, replacing what was there
Created(tx) == {<<tx.id, i - 1>> : i \in {j \in DOMAIN tx.outs : tx.outs[j].addr # "none"}}
Entry(tx, o) == [h |-> tx.blk, val |-> tx.outs[o[2] + 1].val, addr |-> tx.outs[o[2] + 1].addr]
CreateOne ==
  /\ phase = "create"
  /\ IF pend.k <= Len(pend.outs)
     THEN /\ utxo' = IF pend.outs[pend.k].addr # "none"
                     THEN CreateEff(utxo, <<pend.id, pend.k - 1>>, Entry(pend, <<pend.id, pend.k - 1>>)) ELSE utxo
          /\ pend' = [pend EXCEPT !.k = @ + 1] /\ UNCHANGED <<hist, phase>>
     ELSE /\ hist' = Append(hist, [id |-> pend.id, blk |-> pend.blk, ins |-> pend.ins, outs |-> pend.outs])
          /\ phase' = "idle" /\ pend' = <<>> /\ UNCHANGED utxo
  /\ UNCHANGED blk

Next == \/ \E ins \in InLists, outs \in OutLists, nb \in 0..MaxBlk : AddTx(ins, outs, nb)
        \/ \E k \in 1..MaxTx, nb \in 0..MaxBlk : AddDuplicate(k, nb)
        \/ SpendOne \/ CreateOne
Spec == Init /\ [][Next]_vars

-----------------------------------------------------------------------------
(* Declarative meaning (C07): an outpoint is unspent iff its last creation in the history is not followed by a      *)
(* transaction having it as an input.                                                                               *)
LastCreate(H, o) == LET ks == {k \in DOMAIN H : o \in Created(H[k])} IN IF ks = {} THEN 0 ELSE CHOOSE k \in ks : \A j \in ks : j <= k
SpentAfter(H, o, k) == \E j \in (k + 1)..Len(H) : \E i \in DOMAIN H[j].ins : H[j].ins[i] = o
AllCreated(H) == UNION {Created(H[k]) : k \in DOMAIN H}
Unspent(H) == {o \in AllCreated(H) : ~SpentAfter(H, o, LastCreate(H, o))}
UnspentMap(H) == [o \in Unspent(H) |-> Entry(H[LastCreate(H, o)], o)]

\* C07: the operational map is the declarative one after every transaction ...
UtxoIsUnspent == phase = "idle" => utxo = UnspentMap(hist)
\* ... and in the middle of a transaction it is that set minus the inputs already applied plus the outputs already created
Applied(S, n) == {S[i] : i \in 1..(IF n < Len(S) THEN n ELSE Len(S))}
MidTx == phase # "idle" =>
           LET base == UnspentMap(hist)
               gone == IF phase = "spend" THEN Applied(pend.ins, pend.k - 1) ELSE Applied(pend.ins, Len(pend.ins))
               made == IF phase = "create" THEN {o \in Created(pend) : o[2] < pend.k - 1} ELSE {}
           IN utxo = [o \in (DOMAIN base \ gone) \cup made |-> IF o \in made THEN Entry(pend, o) ELSE base[o]]
NoAddressless == \A o \in DOMAIN utxo : utxo[o].addr # "none"

(* C08: balances = per-address sum over the unspent outputs; an address appears iff it owns at least one of them *)
RECURSIVE SumVals(_, _)
SumVals(U, S) == IF S = {} THEN 0 ELSE LET o == CHOOSE x \in S : TRUE IN U[o].val + SumVals(U, S \ {o})
Balances(U) == LET owners == {U[o].addr : o \in DOMAIN U}
               IN [a \in owners |-> SumVals(U, {o \in DOMAIN U : U[o].addr = a})]
\* the balances dump equals the aggregation of the unspent dump (both are functions of the same map)
BalancesOfDump == phase = "idle" =>
   LET B == Balances(utxo) IN
     /\ DOMAIN B = {UnspentMap(hist)[o].addr : o \in Unspent(hist)}
     /\ \A a \in DOMAIN B : B[a] = SumVals(UnspentMap(hist), {o \in Unspent(hist) : UnspentMap(hist)[o].addr = a})
=============================================================================
