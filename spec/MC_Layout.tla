----------------------------- MODULE MC_Layout -----------------------------
(* C03 / C11 / C17: every placement of the chain's blocks into blk files and slots (physical       *)
(* order = slot order), with foreign blocks in unused slots and files named by no record,         *)
(* for several ranges.  The run must deliver the block stored where the record points, keep       *)
(* open only files still needed, and reopen a closed file when a later height needs it.           *)
EXTENDS BlockParser, Json

CONSTANTS NB,       \* number of blocks in the chain (heights 0..NB-1)
          LFiles,   \* blk file numbers available
          LSlots,   \* slots per file
          Ranges    \* set of <<start, end>>

RangesQ == {<<0, NONE>>, <<1, NONE>>, <<0, 1>>}
RangesT == {<<0, NONE>>, <<1, NONE>>, <<2, NONE>>, <<0, 2>>, <<1, 2>>}

Places == LFiles \X LSlots
Heights0 == 0..(NB - 1)
Layouts == {f \in [Heights0 -> Places] : \A a, b \in Heights0 : a # b => f[a] # f[b]}

Rec(h, lay) == [id |-> h, h |-> h, prev |-> h - 1, data |-> TRUE, valid |-> 5, failed |-> FALSE,
                file |-> lay[h][1], off |-> lay[h][2]]

Scen(lay, decoy, extra, rg, rev) ==
  LET used == {lay[h] : h \in Heights0}
      ufiles == {lay[h][1] : h \in Heights0}
      foreign == IF decoy THEN {p \in Places : p \notin used /\ p[1] \in ufiles} ELSE {}
      \* entries a node also keeps in the same database; they carry ids/heights that would clash if taken for blocks
      junk == IF extra THEN <<[Rec(0, lay) EXCEPT !.id = 900, !.h = NB] @@ [key |-> "f"], [Rec(0, lay) EXCEPT !.id = 901, !.h = 0] @@ [key |-> "l"]>> ELSE <<>>
  IN [recs |-> junk \o [i \in 1..NB |-> Rec(IF rev THEN NB - i ELSE i - 1, lay)],
      store |-> {[file |-> lay[h][1], off |-> lay[h][2], id |-> h] : h \in Heights0}
                \cup {[file |-> p[1], off |-> p[2], id |-> 100 + p[1] * 10 + p[2]] : p \in foreign},
      files |-> ufiles \cup (IF extra THEN {99} ELSE {}),
      facts |-> [b \in Heights0 |-> [prev |-> b - 1, merkleOk |-> TRUE]],
      genesis |-> 0, start |-> rg[1], end |-> rg[2], verify |-> FALSE, cb |-> "csvdump", limit |-> NONE, kill |-> FALSE,
      tip |-> NB - 1, active |-> [h \in Heights0 |-> h],
      lay |-> [h \in Heights0 |-> [file |-> lay[h][1], slot |-> lay[h][2]]], decoy |-> decoy, extra |-> extra]

MCScen == {Scen(lay, x, x, rg, FALSE) : lay \in Layouts, x \in BOOLEAN, rg \in Ranges}

Obs == [lay |-> [i \in 1..NB |-> sc.lay[i - 1]], decoy |-> sc.decoy, extra |-> sc.extra, start |-> sc.start, end |-> sc.end,
        exit |-> exit, heights |-> [i \in DOMAIN delivered |-> delivered[i][1]], ids |-> [i \in DOMAIN delivered |-> delivered[i][2]]]
Emit == Done => PrintT(<<"REPLAY", ToJson(Obs)>>)

\* a closed file that is needed again is reopened: every delivered height was read although its file may have been closed before
Reopened == (Done /\ exit = 0) => Len(delivered) = Cardinality(ExpectedHeights)
=============================================================================
