------------------------------ MODULE MC_Stats ------------------------------
EXTENDS Stats, Json
VARIABLE fin
Out(typ, val) == [typ |-> typ, val |-> val]
Tx(cb, nin, outs, size) == [cb |-> cb, nin |-> nin, outs |-> outs, size |-> size]
\* representative transactions: coinbase above / below / at the reward, value ties, size ties, zero value, no outputs
Menu == {Tx(TRUE, 1, <<Out("P2PKH", 5)>>, 1),
         Tx(TRUE, 1, <<Out("P2PK", 3), Out("OpReturn", 9)>>, 2),
         Tx(TRUE, 1, <<Out("P2PKH", 4)>>, 2),
         Tx(FALSE, 2, <<Out("OpReturn", 2), Out("P2PKH", 3)>>, 2),
         Tx(FALSE, 1, <<Out("P2SH", 5)>>, 1),
         Tx(FALSE, 3, <<>>, 3),
         Tx(FALSE, 1, <<Out("P2PK", 0)>>, 3),
         Tx(FALSE, 2, <<Out("P2PKH", 6)>>, 1)}          \* not a coinbase (two inputs) although its first output exceeds the reward
MenuSmall == {Tx(TRUE, 1, <<Out("P2PKH", 5)>>, 1), Tx(TRUE, 1, <<Out("P2PK", 3), Out("OpReturn", 9)>>, 2),
              Tx(FALSE, 2, <<Out("OpReturn", 2), Out("P2PKH", 3)>>, 2), Tx(FALSE, 1, <<Out("P2SH", 5)>>, 2), Tx(FALSE, 2, <<Out("P2PKH", 6)>>, 1)}

MInit == Init /\ fin = FALSE
MAccBlock == UNCHANGED fin /\ \E b \in Blocks : AccBlock(b)
MAccTx == UNCHANGED fin /\ AccTx
MAccTime == UNCHANGED fin /\ AccTime
Finish == cur = <<>> /\ Len(chain) = MaxBlocks /\ fin = FALSE /\ fin' = TRUE /\ UNCHANGED vars
MNext == MAccBlock \/ MAccTx \/ MAccTime \/ Finish
MSpec == MInit /\ [][MNext]_<<vars, fin>>
Emit == fin => PrintT(<<"REPLAY", ToJson([chain |-> chain,
              stats |-> [blocks |-> acc.blocks, txs |-> acc.txs, ins |-> acc.ins, outs |-> acc.outs, fee |-> acc.fee, volume |-> acc.volume,
                         bigVal |-> [v |-> acc.bigVal.v, b |-> acc.bigVal.at[1], k |-> acc.bigVal.at[2]],
                         bigSize |-> [v |-> acc.bigSize.v, b |-> acc.bigSize.at[1], k |-> acc.bigSize.at[2]],
                         sizes |-> acc.sizes, gaps |-> acc.gaps,
                         types |-> {[t |-> t, n |-> acc.types[t], b |-> acc.first[t][1], k |-> acc.first[t][2]] : t \in DOMAIN acc.types}]])>>)
=============================================================================
