CONSTANTS
  N = 4
SPECIFICATION Spec
INVARIANTS SelectsActive TipValid Emit
CHECK_DEADLOCK FALSE
