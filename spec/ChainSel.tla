------------------------------ MODULE ChainSel ------------------------------
(***************************************************************************)
(* Pure operators: selection of the active chain from the records of a     *)
(* Bitcoin-Core-like block index (parser/index.rs select_active_chain).    *)
(* Shared by BlockParser.tla (the run) and CoreIndex.tla (the node that    *)
(* wrote the index), so that the rule the parser applies is checked        *)
(* against every history a node can have gone through.                     *)
(* A record is [id, h, prev, data, valid, failed, file, off].              *)
(***************************************************************************)
EXTENDS Integers, Sequences, FiniteSets

RangeOf(s) == {s[i] : i \in DOMAIN s}

\* TLC passes operator arguments and LET definitions by name and re-evaluates them at every use.
\* Force(v, F) evaluates v once (as the single element of an enumerated set) and applies F to the value.
Force(v, F(_)) == CHOOSE r \in {F(x) : x \in {v}} : TRUE
MaxOf(S0) == LET pick(S) == CHOOSE x \in S : \A y \in S : y <= x IN Force(S0, pick)
MinOf(S0) == LET pick(S) == CHOOSE x \in S : \A y \in S : x <= y IN Force(S0, pick)

-----------------------------------------------------------------------------
(* Chain selection (parser/index.rs).                                      *)
(* A record is usable when it has block data and no failure flag; a        *)
(* candidate tip is a usable record all of whose indexed ancestors are     *)
(* usable.  The selected tip is the highest candidate, a height tie being  *)
(* broken by the higher validity level; the chain is its ancestry.         *)

Usable(r) == r.data /\ ~r.failed

\* Connected ids, computed in one pass over the heights in ascending order: an id is connected when it is
\* usable and its parent, if indexed, is connected (parents sit one height below)
RECURSIVE GoodFrom(_, _, _, _)
GoodFrom(S, h, hmax, G) ==
  IF h > hmax THEN G
  ELSE GoodFrom(S, h + 1, hmax,
                G \cup {id \in DOMAIN S : /\ S[id].h = h /\ Usable(S[id])
                                          /\ (S[id].prev \in DOMAIN S /\ h > 0) => S[id].prev \in G})

Candidates(S) == IF DOMAIN S = {} THEN {}
                 ELSE LET go(hs) == GoodFrom(S, MinOf(hs), MaxOf(hs), {}) IN Force({S[id].h : id \in DOMAIN S}, go)

BestOf(S, C) == IF C = {} THEN {}
                ELSE LET mh == MaxOf({S[id].h : id \in C})
                         pickTop(top) == LET mv == MaxOf({S[id].valid : id \in top}) IN {id \in top : S[id].valid = mv}
                     IN Force({id \in C : S[id].h = mh}, pickTop)
BestTips(S) == LET best(C) == BestOf(S, C) IN Force(Candidates(S), best)

RECURSIVE Ancestry(_, _)
Ancestry(S, id) == IF S[id].prev \in DOMAIN S /\ S[id].h > 0
                   THEN Ancestry(S, S[id].prev) \cup {id} ELSE {id}

\* height -> record of the chain ending in tip
ChainOf(S, tip) == LET mk(A) == [h \in {S[id].h : id \in A} |-> S[CHOOSE id \in A : S[id].h = h]]
                   IN Force(Ancestry(S, tip), mk)

FileMax(chain) == LET mk(F) == [f \in F |-> MaxOf({h \in DOMAIN chain : chain[h].file = f})]
                  IN Force({chain[h].file : h \in DOMAIN chain}, mk)
=============================================================================
