------------------------------ MODULE Trace_Par ------------------------------
(* Validation of recorded evaluation orders (hook eval_hook in tx.rs) against Par.tla: each `eval` event is the StartTx   *)
(* or EvalOut step of the worker thread that logged it.  Transactions are identified by their locktime (= index + 1),    *)
(* outputs by their value (= 1000 * (tx index + 1) + output index + 1).  IOEnv: TRACE, NTX, NOUT.                           *)
EXTENDS Par, Json, IOUtils

Ev == ndJsonDeserialize(IOEnv.TRACE)
VARIABLE l
Is(k) == l <= Len(Ev) /\ Ev[l].ev = "eval" /\ Ev[l].kind = k /\ l' = l + 1
TStartTx == Is("tx") /\ StartTx(Ev[l].tid + 1, Ev[l].id)
TEvalOut == Is("out") /\ EvalOut(Ev[l].tid + 1, Ev[l].id \div 1000, Ev[l].id % 1000)
TOther == l <= Len(Ev) /\ Ev[l].ev # "eval" /\ l' = l + 1 /\ UNCHANGED vars
\* (joins and the final assembly carry no event and are not needed to explain the evaluations; the assembled order is
\* observed in the output files)
TNext == TStartTx \/ TEvalOut \/ TOther
TSpec == Init /\ l = 1 /\ [][TNext]_<<vars, l>>
TraceAccepted == IF TLCGet("stats").diameter - 1 = Len(Ev) THEN TRUE
                 ELSE Print(<<"TRACE-REJECTED at event", TLCGet("stats").diameter, IF TLCGet("stats").diameter <= Len(Ev) THEN Ev[TLCGet("stats").diameter] ELSE "eof">>, FALSE)
=============================================================================
