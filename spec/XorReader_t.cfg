CONSTANTS
  FileLen = 10
  Bs = {2, 3, 5}
  Ks = {1, 3, 5}
  MaxOps = 4
  MaxRead = 5
  KeyAt = "abs"
SPECIFICATION Spec
INVARIANTS PosTrue Plain BufferSane Emit
CHECK_DEADLOCK FALSE
