CONSTANTS
  FileLen = 12
  Bs = {2, 3, 4, 5}
  Ks = {1, 2, 3, 5}
  MaxOps = 4
  MaxRead = 6
  KeyAt = "abs"
SPECIFICATION Spec
INVARIANTS PosTrue Plain BufferSane Emit
CHECK_DEADLOCK FALSE
