CONSTANTS
  MaxT = 2
  VerifyCallbacks = {"csvdump"}
  KSet = {1, 2, 4, 6, 7}
  Cap = 2
  AsIs = {}
  Scenarios <- MCScen
SPECIFICATION Spec
INVARIANTS TypeOK VerifyIff NoVerifyNoReject FailureLeavesNone ExitZeroComplete FinalNeverPartial Emit
CHECK_DEADLOCK FALSE
