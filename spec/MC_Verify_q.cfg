CONSTANTS
  MaxT = 2
  VerifyCallbacks = {"csvdump"}
  Cap = 2
  AsIs = {}
  Scenarios <- MCScen
SPECIFICATION Spec
INVARIANTS TypeOK VerifyIff NoVerifyNoReject FailureLeavesNone ExitZeroComplete FinalNeverPartial Emit
CHECK_DEADLOCK FALSE
