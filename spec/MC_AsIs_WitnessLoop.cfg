CONSTANTS
  Universe <- UniverseQ
  WitnessLoop = "outputs"
SPECIFICATION Spec
INVARIANTS DecodeExact CountsRight
CHECK_DEADLOCK FALSE
