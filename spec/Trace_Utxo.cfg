CONSTANTS
  MaxTx = 0
  MaxBlk = 0
  MaxIn = 0
  MaxOut = 0
  Addrs = {}
  Vals = {}
SPECIFICATION TSpec
INVARIANTS NoAddresslessT
POSTCONDITION TraceAccepted
CHECK_DEADLOCK FALSE
