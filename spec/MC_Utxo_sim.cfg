CONSTANTS
  MaxTx = 9
  MaxBlk = 4
  MaxIn = 2
  MaxOut = 2
  Addrs = {"a", "b"}
  Vals = {0, 1, 2}
SPECIFICATION MSpec
INVARIANTS UtxoIsUnspent MidTx NoAddressless BalancesOfDump Emit
CHECK_DEADLOCK FALSE
