CONSTANTS
  Universe <- UniverseT
  WitnessLoop = "inputs"
SPECIFICATION Spec
INVARIANTS DecodeExact CountsRight RoundTrip MarkerUnambiguous AuxTransparent NoAuxElsewhere Misframed Emit
CHECK_DEADLOCK FALSE
