CONSTANTS
  MaxT = 2
  VerifyCallbacks = {"csvdump", "simplestats"}
  KSet = {1, 2, 3, 4, 5, 6, 7}
  Cap = 2
  AsIs = {}
  Scenarios <- MCScen
SPECIFICATION Spec
INVARIANTS TypeOK VerifyIff NoVerifyNoReject FailureLeavesNone ExitZeroComplete FinalNeverPartial Emit
CHECK_DEADLOCK FALSE
