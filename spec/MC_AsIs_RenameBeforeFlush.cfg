CONSTANTS
  MaxT = 2
  MaxL = 3
  Cap = 2
  AsIs = {"RenameBeforeFlush"}
  Scenarios <- MCScen
SPECIFICATION FairSpec
INVARIANTS TypeOK FinalNeverPartial ExitZeroComplete FailureLeavesNone ReadFaultReported FaultFails NoFaultNoLimitOk LimitFails
PROPERTY Terminates
CHECK_DEADLOCK FALSE
