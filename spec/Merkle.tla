------------------------------- MODULE Merkle -------------------------------
(* The merkle root used by --verify (common/utils.rs merkle_root) against Bitcoin's definition (C09).        *)
(* Hashing is a free injective pair constructor: H(a, b) = <<a, b>>; leaves are 1..n.                        *)
EXTENDS Integers, Sequences

CONSTANTS MaxLeaves, DupOdd      \* DupOdd = TRUE: an odd level hashes its last element with itself (the design)

VARIABLES n
H(a, b) == <<a, b>>

\* utils.rs: pairs of full chunks, then - if the length is odd - the last hash paired with itself
Level(hs) == LET m == Len(hs) \div 2
                 pairs == [i \in 1..m |-> H(hs[2 * i - 1], hs[2 * i])]
             IN IF Len(hs) % 2 = 1 THEN (IF DupOdd THEN Append(pairs, H(hs[Len(hs)], hs[Len(hs)])) ELSE Append(pairs, <<hs[Len(hs)]>>))
                ELSE pairs
RECURSIVE Root(_)
Root(hs) == IF Len(hs) = 1 THEN hs[1] ELSE Root(Level(hs))

\* Bitcoin (consensus/merkle.cpp, pre-optimisation form): duplicate the last element of an odd level, then pair up
RECURSIVE RefRoot(_)
RefRoot(hs) == IF Len(hs) = 1 THEN hs[1]
               ELSE LET ev == IF Len(hs) % 2 = 1 THEN Append(hs, hs[Len(hs)]) ELSE hs
                    IN RefRoot([i \in 1..(Len(ev) \div 2) |-> H(ev[2 * i - 1], ev[2 * i])])

Leaves(k) == [i \in 1..k |-> i]
Init == n = 1
Next == n < MaxLeaves /\ n' = n + 1
Spec == Init /\ [][Next]_n

RootIsBitcoin == Root(Leaves(n)) = RefRoot(Leaves(n))
\* every leaf is covered: changing any single leaf changes the root (H is injective)
Sensitive == \A i \in 1..n : Root([Leaves(n) EXCEPT ![i] = 0]) # Root(Leaves(n))
=============================================================================
