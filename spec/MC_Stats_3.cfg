CONSTANTS
  TxMenu <- Menu
  MaxBlocks = 3
  MaxTxs = 1
  Sizes = {1}
  Times = {0, 2}
  Eras = {0, 1}
SPECIFICATION MSpec
INVARIANTS AccIsStats TypesOk Emit
CHECK_DEADLOCK FALSE
