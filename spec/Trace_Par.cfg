CONSTANTS
  NTx = 12
  NOut = 5
  Workers = {0}
  Collect = "indexed"
SPECIFICATION TSpec
POSTCONDITION TraceAccepted
CHECK_DEADLOCK FALSE
