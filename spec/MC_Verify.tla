----------------------------- MODULE MC_Verify -----------------------------
(* C09: chains in which every block is either intact or altered in one of the ways --verify must catch:      *)
(*   "tx"      a bit of transaction data covered by a txid is changed  (merkle root no longer matches)      *)
(*   "merkle"  the merkle-root field of the header is changed                                              *)
(*   "prev"    the prev-hash field of the header is changed                                                *)
(*   "foreign" the block is replaced by a self-consistent block of another chain                           *)
(* for every --start, with and without --verify.                                                           *)
EXTENDS BlockParser, Json

CONSTANTS MaxT, VerifyCallbacks, KSet       \* KSet: indexes into Kinds explored by this configuration
Kinds == <<"none", "tx", "merkle", "prev", "foreign", "nonce", "chain">>
(*   "nonce"   a header field that no check covers (time, bits, nonce) is changed: the block no longer hashes to its      *)
(*             indexed hash, but merkle root, prev-hash link and (above height 0) everything verified still hold          *)
(*   "chain"   the block is replaced by a self-consistent block of a foreign branch whose prev-hash is the hash of what   *)
(*             is STORED at the height below (a run of them is a branch that links internally, not to the index)          *)
NK == 7

\* the stored block at height h altered by kind k gets the id 100*k + h  (k = 1 is intact: the id is h itself)
Id(h, k) == IF k = 1 THEN h ELSE 100 * k + h
\* the hash a block is known by depends on its header only: "tx" leaves it the indexed one
HdrId(h, k) == IF Kinds[k] \in {"none", "tx"} THEN h ELSE Id(h, k)
Facts(h, k, below) == [prev |-> IF Kinds[k] \in {"prev", "foreign"} THEN -7 ELSE IF Kinds[k] = "chain" THEN below ELSE h - 1,
                       merkleOk |-> Kinds[k] \notin {"tx", "merkle"}]

Scen(T, ks, s, e, vf, cb) ==
  [recs |-> [i \in 1..(T + 1) |-> [id |-> i - 1, h |-> i - 1, prev |-> i - 2, data |-> TRUE, valid |-> 5, failed |-> FALSE,
                                  file |-> 0, off |-> i - 1]],
   store |-> {[file |-> 0, off |-> h, id |-> Id(h, ks[h + 1])] : h \in 0..T},
   files |-> {0},
   facts |-> [b \in {Id(h, ks[h + 1]) : h \in 0..T} |->
                LET h == IF b < 100 THEN b ELSE b % 100
                    k == IF b < 100 THEN 1 ELSE b \div 100 IN Facts(h, k, IF h = 0 THEN -1 ELSE HdrId(h - 1, ks[h]))],
   genesis |-> 0, start |-> s, end |-> e, verify |-> vf, cb |-> cb, limit |-> NONE, kill |-> FALSE,
   tip |-> T, active |-> [h \in 0..T |-> Id(h, ks[h + 1])], indexed |-> [h \in 0..T |-> h], kinds |-> ks]

\* with --end an altered block above the range must not matter
MCAll == UNION {{Scen(T, ks, s, e, vf, cb) : ks \in [1..(T + 1) -> KSet], s \in 0..T, e \in {NONE} \cup 1..T,
                                            vf \in BOOLEAN, cb \in VerifyCallbacks} : T \in 0..MaxT}
MCScen == {x \in MCAll : x.end = NONE \/ x.end > x.start}

\* without --verify nothing is checked: the run succeeds whatever the blocks contain
NoVerifyNoReject == (Done /\ ~sc.verify) => exit = 0

Obs == [T |-> sc.tip, kinds |-> [i \in DOMAIN sc.kinds |-> Kinds[sc.kinds[i]]], start |-> sc.start, end |-> sc.end, verify |-> sc.verify,
        cb |-> sc.cb, exit |-> exit, errH |-> errH, heights |-> [i \in DOMAIN delivered |-> delivered[i][1]],
        nfinals |-> Cardinality(DOMAIN fin)]
Emit == Done => PrintT(<<"REPLAY", ToJson(Obs)>>)
=============================================================================
