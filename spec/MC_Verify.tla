----------------------------- MODULE MC_Verify -----------------------------
(* C09: chains in which every block is either intact or altered in one of the ways --verify must catch:      *)
(*   "tx"      a bit of transaction data covered by a txid is changed  (merkle root no longer matches)      *)
(*   "merkle"  the merkle-root field of the header is changed                                              *)
(*   "prev"    the prev-hash field of the header is changed                                                *)
(*   "foreign" the block is replaced by a self-consistent block of another chain                           *)
(* for every --start, with and without --verify.                                                           *)
EXTENDS BlockParser, Json

CONSTANTS MaxT, VerifyCallbacks
Kinds == <<"none", "tx", "merkle", "prev", "foreign">>

\* the stored block at height h altered by kind k gets the id 100*k + h  (k = 1 is intact: id h + 100)
Id(h, k) == IF k = 1 THEN h ELSE 100 * k + h
Facts(h, k) == [prev |-> IF Kinds[k] \in {"prev", "foreign"} THEN -7 ELSE h - 1,
                merkleOk |-> Kinds[k] \notin {"tx", "merkle"}]

Scen(T, ks, s, e, vf, cb) ==
  [recs |-> [i \in 1..(T + 1) |-> [id |-> i - 1, h |-> i - 1, prev |-> i - 2, data |-> TRUE, valid |-> 5, failed |-> FALSE,
                                  file |-> 0, off |-> i - 1]],
   store |-> {[file |-> 0, off |-> h, id |-> Id(h, ks[h + 1])] : h \in 0..T},
   files |-> {0},
   facts |-> [b \in {Id(h, ks[h + 1]) : h \in 0..T} |->
                LET h == IF b < 100 THEN b ELSE b % 100
                    k == IF b < 100 THEN 1 ELSE b \div 100 IN Facts(h, k)],
   genesis |-> 0, start |-> s, end |-> e, verify |-> vf, cb |-> cb, limit |-> NONE, kill |-> FALSE,
   tip |-> T, active |-> [h \in 0..T |-> Id(h, ks[h + 1])], indexed |-> [h \in 0..T |-> h], kinds |-> ks]

\* with --end an altered block above the range must not matter
MCAll == UNION {{Scen(T, ks, s, e, vf, cb) : ks \in [1..(T + 1) -> 1..5], s \in 0..T, e \in {NONE} \cup 1..T,
                                            vf \in BOOLEAN, cb \in VerifyCallbacks} : T \in 0..MaxT}
MCScen == {x \in MCAll : x.end = NONE \/ x.end > x.start}

\* without --verify nothing is checked: the run succeeds whatever the blocks contain
NoVerifyNoReject == (Done /\ ~sc.verify) => exit = 0

Obs == [T |-> sc.tip, kinds |-> [i \in DOMAIN sc.kinds |-> Kinds[sc.kinds[i]]], start |-> sc.start, end |-> sc.end, verify |-> sc.verify,
        cb |-> sc.cb, exit |-> exit, errH |-> errH, heights |-> [i \in DOMAIN delivered |-> delivered[i][1]],
        nfinals |-> Cardinality(DOMAIN fin)]
Emit == Done => PrintT(<<"REPLAY", ToJson(Obs)>>)
=============================================================================
