----------------------------- MODULE XorReader -----------------------------
(***************************************************************************)
(* The reader stack behind every block read (C11):                         *)
(*   XorReader{absolute_pos}            parser/reader.rs:186-220           *)
(*     over seek_bufread::BufReader{buf_pos, cap, absolute_pos} (1.2.2)    *)
(*       over File{position}                                               *)
(* Each layer keeps its own notion of the position.  Bytes are abstract:   *)
(* a returned byte is the pair <<file offset it came from, key index it    *)
(* was XOR-ed with>>; it equals the plaintext iff index = offset mod K.    *)
(* One action per public call (the code is sequential: the call's return   *)
(* is its linearisation point).                                            *)
(***************************************************************************)
EXTENDS Integers, Sequences, TLC, Json

CONSTANTS FileLen,   \* bytes in the file
          Bs,        \* BufReader capacities explored
          Ks,        \* key lengths explored
          MaxOps,    \* bound on calls per behaviour
          MaxRead,   \* largest read request
          KeyAt      \* "abs": key indexed by absolute position (the design); "buf": by position in buffer (a defect)

VARIABLES B,         \* BufReader capacity   } geometry, fixed by Init
          K,         \* key length           }
          fpos,      \* position of the underlying File
          bufStart,  \* file offset of buf[0]
          cap,       \* valid bytes in the buffer
          bufPos,    \* next unread buffer index
          brAbs,     \* BufReader.absolute_pos
          xrAbs,     \* XorReader.absolute_pos
          out,       \* bytes returned by the last read: sequence of <<offset, key index>>
          want,      \* where the last call should have positioned the stream: <<first offset, number of bytes due>>
          hist       \* calls made so far (for replay)
vars == <<B, K, fpos, bufStart, cap, bufPos, brAbs, xrAbs, out, want, hist>>

Min(a, b) == IF a < b THEN a ELSE b

Init == B \in Bs /\ K \in Ks /\ fpos = 0 /\ bufStart = 0 /\ cap = 0 /\ bufPos = 0 /\ brAbs = 0 /\ xrAbs = 0 /\ out = <<>> /\ want = <<0, 0>> /\ hist = <<>>

\* BufReader::sync_and_flush(Start(p)): drop the buffer, seek the file
\* BufReader::seek(Start(p)): forward inside the buffer -> consume; otherwise sync_and_flush
SeekStart(p) ==
  /\ Len(hist) < MaxOps
  /\ LET avail == IF cap >= bufPos THEN cap - bufPos ELSE 0 IN
       IF p >= brAbs /\ avail >= p - brAbs
       THEN /\ bufPos' = bufPos + (p - brAbs) /\ brAbs' = p /\ UNCHANGED <<fpos, cap, bufStart>>
       ELSE /\ bufPos' = cap /\ fpos' = p /\ brAbs' = p /\ UNCHANGED <<cap, bufStart>>
  /\ xrAbs' = brAbs'                                   \* XorReader::seek stores what the inner seek returned
  /\ out' = <<>> /\ want' = <<p, 0>>
  /\ hist' = Append(hist, [op |-> "seek", arg |-> p]) /\ UNCHANGED <<B, K>>

\* BufReader::read looped until n bytes or EOF, as read_exact does; returns the state after and the bytes
RECURSIVE Pull(_, _)
Pull(st, n) ==
  IF n = 0 THEN st
  ELSE LET filled == IF st.cap = st.bufPos
                     THEN LET got == Min(B, FileLen - st.fpos) IN
                          [st EXCEPT !.bufStart = st.fpos, !.cap = got, !.bufPos = 0, !.fpos = st.fpos + got]
                     ELSE st
           k == Min(filled.cap - filled.bufPos, n)
       IN IF k = 0 THEN filled          \* EOF
          ELSE Pull([filled EXCEPT !.bufPos = filled.bufPos + k, !.brAbs = filled.brAbs + k,
                                   !.bytes = filled.bytes \o [i \in 1..k |-> filled.bufStart + filled.bufPos + i - 1]], n - k)

Read(n) ==
  /\ Len(hist) < MaxOps
  /\ LET st == Pull([fpos |-> fpos, bufStart |-> bufStart, cap |-> cap, bufPos |-> bufPos, brAbs |-> brAbs, bytes |-> <<>>], n)
         m == Len(st.bytes)
     IN /\ fpos' = st.fpos /\ bufStart' = st.bufStart /\ cap' = st.cap /\ bufPos' = st.bufPos /\ brAbs' = st.brAbs
        \* XorReader::read: byte i is XOR-ed with key[(i + absolute_pos) mod K], then absolute_pos += m
        /\ out' = [i \in 1..m |-> <<st.bytes[i],
                                    IF KeyAt = "abs" THEN (i - 1 + xrAbs) % K ELSE (i - 1) % K>>]
        /\ xrAbs' = xrAbs + m
        /\ want' = <<want[1] + want[2], Min(n, IF FileLen > want[1] + want[2] THEN FileLen - (want[1] + want[2]) ELSE 0)>>
  /\ hist' = Append(hist, [op |-> "read", arg |-> n]) /\ UNCHANGED <<B, K>>

\* BlkFile::close + open: a fresh reader on the same file
Reopen == /\ Len(hist) < MaxOps /\ Len(hist) > 0 /\ hist[Len(hist)].op # "reopen"
          /\ fpos' = 0 /\ bufStart' = 0 /\ cap' = 0 /\ bufPos' = 0 /\ brAbs' = 0 /\ xrAbs' = 0 /\ out' = <<>> /\ want' = <<0, 0>>
          /\ hist' = Append(hist, [op |-> "reopen", arg |-> 0]) /\ UNCHANGED <<B, K>>

SeekAny == \E p \in 0..FileLen : SeekStart(p)
ReadAny == \E n \in 1..MaxRead : Read(n)
Next == SeekAny \/ ReadAny \/ Reopen
Spec == Init /\ [][Next]_vars

\* the next byte the stack would return really is the one at xrAbs
NextOffset == IF bufPos < cap THEN bufStart + bufPos ELSE fpos
PosTrue == xrAbs = brAbs /\ (xrAbs <= FileLen => NextOffset = xrAbs) /\ xrAbs = want[1] + want[2]
\* what a read returns is the plaintext of the requested range
Plain == /\ Len(out) = want[2]
         /\ \A i \in 1..Len(out) : out[i][1] = want[1] + i - 1 /\ out[i][2] = out[i][1] % K
BufferSane == bufPos <= cap /\ cap <= B /\ (bufPos < cap => bufStart + cap = fpos)

Emit == Len(hist) = MaxOps => PrintT(<<"REPLAY", ToJson([b |-> B, k |-> K, ops |-> hist])>>)
=============================================================================
