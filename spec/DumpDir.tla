------------------------------- MODULE DumpDir -------------------------------
(***************************************************************************)
(* The dump folder across runs (C13, second half): whatever was in the     *)
(* folder before - stale *.tmp files of a crashed run, results of earlier  *)
(* runs under the same or other names - the files a run leaves under its   *)
(* final names hold exactly this run's rows, and files it does not name    *)
(* are untouched.  File::create truncates, fs::rename replaces.            *)
(***************************************************************************)
EXTENDS Integers, FiniteSets, TLC

CONSTANTS Outs,        \* output files of the callback, e.g. {"blocks", "tx"}
          Rows         \* rows this run writes per file

VARIABLES dir,         \* name -> content: "old" (left by somebody else) or the number of rows written by this run
          pc, done
vars == <<dir, pc, done>>

Tmp(f) == <<"tmp", f>>
Final(f) == <<"final", f>>
Other == <<"other", "x">>
Names == {Tmp(f) : f \in Outs} \cup {Final(f) : f \in Outs} \cup {Other}

Init == /\ \E pre \in SUBSET Names : dir = [n \in pre |-> "old"]
        /\ pc = "create" /\ done = {}
\* File::create(tmp): creates or truncates
Create(f) == /\ pc = "create" /\ f \notin done
             /\ dir' = [n \in DOMAIN dir \cup {Tmp(f)} |-> IF n = Tmp(f) THEN 0 ELSE dir[n]]
             /\ done' = done \cup {f} /\ UNCHANGED pc
Created == pc = "create" /\ done = Outs /\ pc' = "write" /\ done' = {} /\ UNCHANGED dir
Write(f) == /\ pc = "write" /\ f \notin done
            /\ dir' = [dir EXCEPT ![Tmp(f)] = Rows] /\ done' = done \cup {f} /\ UNCHANGED pc
Written == pc = "write" /\ done = Outs /\ pc' = "rename" /\ done' = {} /\ UNCHANGED dir
\* fs::rename(tmp, final): replaces an existing final file
Rename(f) == /\ pc = "rename" /\ f \notin done
             /\ dir' = [n \in (DOMAIN dir \ {Tmp(f)}) \cup {Final(f)} |-> IF n = Final(f) THEN dir[Tmp(f)] ELSE dir[n]]
             /\ done' = done \cup {f} /\ UNCHANGED pc
Renamed == pc = "rename" /\ done = Outs /\ pc' = "exit" /\ UNCHANGED <<dir, done>>
Next == (\E f \in Outs : Create(f) \/ Write(f) \/ Rename(f)) \/ Created \/ Written \/ Renamed
Spec == Init /\ [][Next]_vars

DumpIndependent == pc = "exit" => /\ \A f \in Outs : Final(f) \in DOMAIN dir /\ dir[Final(f)] = Rows
                                  /\ \A f \in Outs : Tmp(f) \notin DOMAIN dir
OthersUntouched == Other \in DOMAIN dir => dir[Other] = "old"
=============================================================================
