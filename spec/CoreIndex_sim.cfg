CONSTANTS
  N = 11
SPECIFICATION Spec
INVARIANTS SelectsActive TipValid Emit
CHECK_DEADLOCK FALSE
