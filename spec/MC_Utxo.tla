------------------------------ MODULE MC_Utxo ------------------------------
(* Bounded configurations of Utxo.tla with the REPLAY emitter.  A complete history takes one extra step (Finish),    *)
(* the only successor of its state, so that exactly one line per behaviour is printed also in simulation mode        *)
(* (where TLC evaluates invariants on every generated successor).                                                    *)
EXTENDS Utxo, Json
VARIABLE fin
mvars == <<vars, fin>>

Rows == {[txid |-> o[1], idx |-> o[2], h |-> utxo[o].h, val |-> utxo[o].val, addr |-> utxo[o].addr] : o \in DOMAIN utxo}
Bal == LET B == Balances(utxo) IN {[addr |-> a, sum |-> B[a]] : a \in DOMAIN B}
HistOut == [k \in DOMAIN hist |-> [id |-> hist[k].id, blk |-> hist[k].blk,
                                   ins |-> [i \in DOMAIN hist[k].ins |-> [t |-> hist[k].ins[i][1], i |-> hist[k].ins[i][2]]],
                                   outs |-> hist[k].outs]]

MInit == Init /\ fin = FALSE
Finish == phase = "idle" /\ Len(hist) = MaxTx /\ fin = FALSE /\ fin' = TRUE /\ UNCHANGED vars
MAddTx == UNCHANGED fin /\ \E ins \in InLists, outs \in OutLists, nb \in 0..MaxBlk : AddTx(ins, outs, nb)
MAddDuplicate == UNCHANGED fin /\ \E k \in 1..MaxTx, nb \in 0..MaxBlk : AddDuplicate(k, nb)
MSpendOne == UNCHANGED fin /\ SpendOne
MCreateOne == UNCHANGED fin /\ CreateOne
MNext == MAddTx \/ MAddDuplicate \/ MSpendOne \/ MCreateOne \/ Finish
MSpec == MInit /\ [][MNext]_mvars
Emit == fin => PrintT(<<"REPLAY", ToJson([hist |-> HistOut, rows |-> Rows, bal |-> Bal])>>)
=============================================================================
