----------------------------- MODULE MC_Range -----------------------------
(* C02 (and the fault-free part of C10/C17): linear chains of every length, every accepted       *)
(* --start/--end, every callback, two index key orders.                                         *)
EXTENDS BlockParser, Json

CONSTANTS MaxT

Rec(h) == [id |-> h, h |-> h, prev |-> h - 1, data |-> TRUE, valid |-> 5, failed |-> FALSE, file |-> h \div 2, off |-> h]

Linear(T, rev, s, e, cb, vf) ==
  [recs |-> [i \in 1..(T + 1) |-> Rec(IF rev THEN T + 1 - i ELSE i - 1)],
   store |-> {[file |-> h \div 2, off |-> h, id |-> h] : h \in 0..T},
   files |-> {h \div 2 : h \in 0..T},
   facts |-> [b \in 0..T |-> [prev |-> b - 1, merkleOk |-> TRUE]],
   genesis |-> 0, start |-> s, end |-> e, verify |-> vf, cb |-> cb, limit |-> NONE, kill |-> FALSE,
   tip |-> T, active |-> [h \in 0..T |-> h]]

\* (--verify is on for one key order and off for the other: it must not change what is delivered)
MCScenarios == {Linear(T, rev, s, e, cb, rev) : T \in 0..MaxT, rev \in BOOLEAN, s \in 0..(MaxT + 1),
                                               e \in {NONE} \cup 1..(MaxT + 2), cb \in Callbacks}

\* the CLI rejects start >= end; a start above the tip is accepted but leaves "last processed" undefined
Accepted(s) == (s.end = NONE \/ s.start < s.end) /\ s.start <= s.tip
MCScen == {s \in MCScenarios : Accepted(s)}

Obs == [T |-> sc.tip, rev |-> sc.recs[1].h # 0, start |-> sc.start, end |-> sc.end, cb |-> sc.cb, verify |-> sc.verify,
        exit |-> exit, heights |-> [i \in DOMAIN delivered |-> delivered[i][1]],
        finals |-> {[f |-> n[1], s |-> n[2], l |-> n[3]] : n \in DOMAIN fin}]
Emit == Done => PrintT(<<"REPLAY", ToJson(Obs)>>)
=============================================================================
