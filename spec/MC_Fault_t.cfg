CONSTANTS
  MaxT = 3
  MaxL = 6
  Cap = 2
  AsIs = {}
  Scenarios <- MCScen
SPECIFICATION FairSpec
INVARIANTS TypeOK FinalNeverPartial ExitZeroComplete FailureLeavesNone ReadFaultReported FaultFails NoFaultNoLimitOk LimitFails
PROPERTY Terminates
CHECK_DEADLOCK FALSE
