------------------------------- MODULE MC_Wire -------------------------------
EXTENDS Wire
Coins == {"bitcoin", "namecoin", "dogecoin", "litecoin"}
Cls == {"z", "s", "m"}
Stack == UNION {[1..k -> {"z", "s", "m"}] : k \in 0..2}
\* transactions: 1..2 inputs, 0..2 outputs, script classes, witness stacks of 0..2 items per input
TxLegacy == {[seg |-> FALSE, ins |-> i, outs |-> o, wit |-> <<>>] : i \in UNION {[1..k -> Cls] : k \in 1..2}, o \in UNION {[1..k -> Cls] : k \in 0..2}}
TxSeg == {[seg |-> TRUE, ins |-> i, outs |-> o, wit |-> w] :
            i \in UNION {[1..k -> {"z", "s"}] : k \in 1..2}, o \in UNION {[1..k -> {"s"}] : k \in 0..2},
            w \in UNION {[1..k -> Stack] : k \in 1..2}} 
TxSegOk == {t \in TxSeg : Len(t.wit) = Len(t.ins)}
TxSmall == {[seg |-> FALSE, ins |-> <<"s">>, outs |-> <<"s">>, wit |-> <<>>],
            [seg |-> TRUE, ins |-> <<"z", "s">>, outs |-> <<"s">>, wit |-> <<<<"s", "z">>, <<>>>>],
            [seg |-> TRUE, ins |-> <<"s">>, outs |-> <<"s", "s">>, wit |-> <<<<"m">>>>],
            [seg |-> FALSE, ins |-> <<"m", "z">>, outs |-> <<>>, wit |-> <<>>]}
Aux == {[cb |-> t, b1 |-> x, b2 |-> y] : t \in {TxSmall_ \in TxSmall : TRUE}, x \in 0..2, y \in 0..2}
\* one-transaction blocks over every transaction shape, without section, every coin
Single == {[coin |-> c, block |-> [ver |-> v, aux |-> NoSection, txs |-> <<t>>]] : c \in Coins, v \in {0, 2}, t \in TxLegacy \cup TxSegOk}
\* AuxPoW: versions below / at / above the threshold x section present or not x parent coinbase shapes x branch lengths
WithAux == {[coin |-> c, block |-> [ver |-> v, aux |-> a, txs |-> ts]] :
              c \in Coins, v \in 0..2, a \in Aux \cup {NoSection}, ts \in {<<t>> : t \in TxSmall} \cup {<<t, u>> : t \in TxSmall, u \in TxSmall}}
UniverseQ == {x \in Single : x.coin = "bitcoin" /\ x.block.ver = 0} \cup {x \in WithAux : Len(x.block.txs) = 1}
UniverseT == Single \cup WithAux
=============================================================================
