CONSTANTS
  Cap = 2
  AsIs = {"LastInsertWins"}
  Scenarios <- MCScen
SPECIFICATION Spec
INVARIANTS TypeOK ExactRange OnlyActive Linked RightBlock VerifyIff ExitZeroComplete
PROPERTY DeliverNext
CHECK_DEADLOCK FALSE
