------------------------------ MODULE MC_Fault ------------------------------
(* C10: the output protocol under every fault.  Scenarios: chain 0..T, each file callback, an output size limit of   *)
(* L rows per file (every L from 0 up to more than the run writes: a write fails at any flush, including the final  *)
(* one), one unreadable block at any height (or none), SIGKILL possible in every state.                             *)
EXTENDS BlockParser, Json

CONSTANTS MaxT, MaxL

Scen(T, cb, L, bad, kill, s) ==
  [recs |-> [i \in 1..(T + 1) |-> [id |-> i - 1, h |-> i - 1, prev |-> i - 2, data |-> TRUE, valid |-> 5, failed |-> FALSE,
                                  file |-> (i - 1) % 2, off |-> i - 1]],
   store |-> {[file |-> h % 2, off |-> h, id |-> h] : h \in (0..T) \ {bad}},
   files |-> {0, 1},
   facts |-> [b \in 0..T |-> [prev |-> b - 1, merkleOk |-> TRUE]],
   genesis |-> 0, start |-> s, end |-> NONE, verify |-> FALSE, cb |-> cb, limit |-> L, kill |-> kill,
   tip |-> T, active |-> [h \in 0..T |-> h], bad |-> bad]

MCScen == UNION {{Scen(T, cb, L, bad, kill, s) : cb \in FileCallbacks, L \in {NONE} \cup 0..MaxL, bad \in {NONE} \cup 0..T,
                                                 kill \in BOOLEAN, s \in 0..1} : T \in 1..MaxT}

\* start-up failures (not part of a listed property's wording beyond "any failure leaves none"; see MC_Startup cfg)
StartupScen == {[Scen(T, cb, NONE, NONE, FALSE, 0) EXCEPT !.cb = c] @@ [startup |-> st] :
                  T \in {1}, cb \in {"csvdump"}, c \in Callbacks, st \in {"ok", "badrange", "nodump", "nodir", "noindex"}}
ObsS == [cb |-> sc.cb, startup |-> Startup, exit |-> exit, tmps |-> Cardinality(DOMAIN tmp), finals |-> Cardinality(DOMAIN fin),
         delivered |-> Len(delivered)]
EmitS == Done => PrintT(<<"REPLAY", ToJson(ObsS)>>)

\* a fault inside the range makes the run fail; faults outside the range do not matter
FaultInRange == sc.bad # NONE /\ sc.bad >= sc.start
FaultFails == (Done /\ FaultInRange /\ exit # 137) => exit = 1 /\ errH = sc.bad /\ fin = <<>>
\* the number of rows the undisturbed run writes per file
NoFaultNoLimitOk == (Done /\ ~FaultInRange /\ sc.limit = NONE /\ exit # 137) => exit = 0
\* a limit below what a file needs makes the run fail
LimitFails == (Done /\ exit = 0) => \A f \in DOMAIN rows : sc.limit = NONE \/ rows[f] <= sc.limit
Terminates == <>Done
=============================================================================
