CONSTANTS
  N = 5
SPECIFICATION Spec
INVARIANTS SelectsActive TipValid Emit
CHECK_DEADLOCK FALSE
