CONSTANTS
  Outs = {"blocks", "tx"}
  Rows = 3
SPECIFICATION Spec
INVARIANTS DumpIndependent OthersUntouched
CHECK_DEADLOCK FALSE
