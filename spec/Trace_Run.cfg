CONSTANTS
  Cap = 1000000000
  AsIs = {}
  Scenarios = {}
SPECIFICATION TSpec
CONSTRAINT Progress
INVARIANTS TypeOK RightBlockT OpenNeeded FinalNeverPartial ExitZeroComplete FailureLeavesNone LinkedT
PROPERTY DeliverNext
POSTCONDITION TraceAccepted
CHECK_DEADLOCK FALSE
