CONSTANTS
  TxMenu <- Menu
  MaxBlocks = 2
  MaxTxs = 2
  Sizes = {1, 2}
  Times = {0, 1, 2, 3}
  Eras = {0, 1}
SPECIFICATION MSpec
INVARIANTS AccIsStats TypesOk Emit
CHECK_DEADLOCK FALSE
