CONSTANTS
  Small = 2200000
  W = 300
SPECIFICATION Spec
INVARIANTS RoundTrip SelfDelimiting Widths Shape
CHECK_DEADLOCK FALSE
