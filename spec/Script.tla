-------------------------------- MODULE Script --------------------------------
(***************************************************************************)
(* Output-script classification (C05, C06, C16, part of C14).              *)
(*                                                                         *)
(* A script is a sequence of abstract items, each standing for a run of    *)
(* bytes:                                                                  *)
(*   [k |-> "op", name]            one opcode byte                         *)
(*   [k |-> "push", form, len]     a complete push: form "d" (opcode       *)
(*                                 1..75 = length), "p1"/"p2"/"p4"         *)
(*                                 (PUSHDATA1/2/4 + LE length) and `len`   *)
(*                                 payload bytes; OP_0 is the op "OP0"     *)
(*   [k |-> "trunc", form, why]    a push cut short by the end of the      *)
(*                                 script: "nolen" (length field missing)  *)
(*                                 or "short" (fewer payload bytes than    *)
(*                                 announced, incl. lengths up to 2^32-1); *)
(*                                 only possible as the last item          *)
(* The specification decides type, address kind and the item carrying the  *)
(* payload; hashing and Base58/Bech32 rendering are done by the            *)
(* concretiser.  Every script of the bounded universe is an initial state, *)
(* so TLC evaluates every invariant on every script and prints one line    *)
(* per script for the replay against script::eval_from_bytes.              *)
(***************************************************************************)
EXTENDS Integers, Sequences, FiniteSets, TLC, Json

CONSTANTS Universe       \* set of scripts (sequences of items) explored

VARIABLE s
vars == <<s>>

Op(n) == [k |-> "op", name |-> n]
Push(f, l) == [k |-> "push", form |-> f, len |-> l]
Trunc(f, w) == [k |-> "trunc", form |-> f, why |-> w]

IsOp(i, n) == i.k = "op" /\ i.name = n
IsPush(i) == i.k = "push"
Direct(i, n) == i.k = "push" /\ i.form = "d" /\ i.len = n
\* OP_1 .. OP_16 are the ops "N1" .. "N16"
NumOf == [n \in {"N1", "N2", "N3", "N4", "N5", "N6", "N7", "N8", "N9", "N10", "N11", "N12", "N13", "N14", "N15", "N16"} |->
            CASE n = "N1" -> 1 [] n = "N2" -> 2 [] n = "N3" -> 3 [] n = "N4" -> 4 [] n = "N5" -> 5 [] n = "N6" -> 6 [] n = "N7" -> 7
              [] n = "N8" -> 8 [] n = "N9" -> 9 [] n = "N10" -> 10 [] n = "N11" -> 11 [] n = "N12" -> 12 [] n = "N13" -> 13
              [] n = "N14" -> 14 [] n = "N15" -> 15 [] n = "N16" -> 16]
Num(i) == IF i.k = "op" /\ i.name \in DOMAIN NumOf THEN NumOf[i.name] ELSE 0

\* opcode classes of the first byte that make a script provably unspendable (legacy context):
\* OP_RETURN-like (RESERVED, VER, RESERVED1/2, >= 0xba) and illegal (VERIF, VERNOTIF, disabled arithmetic, 0xff)
UnspendableFirst == {"RESERVED", "VERIF", "CAT", "HIGH", "INVALID"}
NopClass == {"NOP", "NOP4"}

-----------------------------------------------------------------------------
(* Bitcoin / testnet3 (C05): byte templates                                                                          *)
IsP2PK(x) == Len(x) = 2 /\ (Direct(x[1], 33) \/ Direct(x[1], 65)) /\ IsOp(x[2], "CHECKSIG")
IsP2PKH(x) == Len(x) = 5 /\ IsOp(x[1], "DUP") /\ IsOp(x[2], "HASH160") /\ Direct(x[3], 20)
              /\ IsOp(x[4], "EQUALVERIFY") /\ IsOp(x[5], "CHECKSIG")
IsP2SH(x) == Len(x) = 3 /\ IsOp(x[1], "HASH160") /\ Direct(x[2], 20) /\ IsOp(x[3], "EQUAL")
WitVer(i) == IF IsOp(i, "OP0") THEN 0 ELSE IF Num(i) > 0 THEN Num(i) ELSE -1
IsWitness(x) == Len(x) = 2 /\ WitVer(x[1]) >= 0 /\ x[2].k = "push" /\ x[2].form = "d" /\ x[2].len >= 2 /\ x[2].len <= 40
\* <m> <push>.. <n> CHECKMULTISIG with n pushes (OP_0 is an empty push) and 1 <= m <= n
KeyLike(i) == IsPush(i) \/ IsOp(i, "OP0")
IsMultisig(x) == /\ Len(x) >= 4 /\ Num(x[1]) >= 1 /\ Num(x[Len(x) - 1]) >= 1 /\ IsOp(x[Len(x)], "CHECKMULTISIG")
                 /\ \A j \in 2..(Len(x) - 2) : KeyLike(x[j])
                 /\ Num(x[Len(x) - 1]) = Len(x) - 3 /\ Num(x[1]) <= Num(x[Len(x) - 1])
\* label left open by the statement: multisig whose "keys" are not 33/65-byte pushes
MultisigGray(x) == IsMultisig(x) /\ \E j \in 2..(Len(x) - 2) : ~(IsPush(x[j]) /\ x[j].len \in {33, 65})

None == [kind |-> "none", slot |-> 0]
BtcVerdict(x) ==
  IF x # <<>> /\ IsOp(x[1], "RETURN")
  THEN [pat |-> "OpReturn", addr |-> None,
        \* C16: payload of the single push after OP_RETURN; 0 = no payload item; -1 = followed by something else (not judged)
        payload |-> IF Len(x) = 2 /\ IsPush(x[2]) THEN 2 ELSE IF Len(x) = 2 /\ IsOp(x[2], "OP0") THEN 0 ELSE -1]
  ELSE IF x # <<>> /\ x[1].k = "op" /\ x[1].name \in UnspendableFirst THEN [pat |-> "Unspendable", addr |-> None, payload |-> 0]
  ELSE IF IsP2PK(x) THEN [pat |-> "Pay2PublicKey", addr |-> [kind |-> "p2pk", slot |-> 1], payload |-> 0]
  ELSE IF IsP2PKH(x) THEN [pat |-> "Pay2PublicKeyHash", addr |-> [kind |-> "p2pkh", slot |-> 3], payload |-> 0]
  ELSE IF IsP2SH(x) THEN [pat |-> "Pay2ScriptHash", addr |-> [kind |-> "p2sh", slot |-> 2], payload |-> 0]
  ELSE IF IsWitness(x) THEN
         LET v == WitVer(x[1])  n == x[2].len IN
         IF v = 0 /\ n = 20 THEN [pat |-> "Pay2WitnessPublicKeyHash", addr |-> [kind |-> "bech32", slot |-> 2], payload |-> 0]
         ELSE IF v = 0 /\ n = 32 THEN [pat |-> "Pay2WitnessScriptHash", addr |-> [kind |-> "bech32", slot |-> 2], payload |-> 0]
         ELSE IF v = 1 /\ n = 32 THEN [pat |-> "Pay2Taproot", addr |-> [kind |-> "bech32m", slot |-> 2], payload |-> 0]
         ELSE IF v = 0 THEN [pat |-> "WitnessProgram", addr |-> None, payload |-> 0]
         ELSE [pat |-> "WitnessProgram", addr |-> [kind |-> "bech32m", slot |-> 2], payload |-> 0]
  ELSE IF IsMultisig(x) THEN [pat |-> "Pay2MultiSig", addr |-> None, payload |-> 0]
  ELSE [pat |-> "NotRecognised", addr |-> None, payload |-> 0]

-----------------------------------------------------------------------------
(* Fork coins (C06): tokenizer of script/custom.rs as a machine over the items, then templates over the tokens        *)
\* one step: the item at ip becomes a token, is dropped (NOP class) or ends the evaluation (push past the end)
RECURSIVE Tokens(_, _, _)
Tokens(x, ip, acc) ==
  IF ip > Len(x) THEN [ok |-> TRUE, toks |-> acc]
  ELSE LET i == x[ip] IN
       IF i.k = "trunc" THEN [ok |-> FALSE, toks |-> acc]                                   \* UnexpectedEof
       ELSE IF i.k = "push" THEN
              Tokens(x, ip + 1, Append(acc, IF i.len > 0 THEN [t |-> "D", at |-> ip] ELSE [t |-> "EMPTYPUSH", at |-> ip]))
       ELSE IF i.name \in NopClass THEN Tokens(x, ip + 1, acc)
       ELSE Tokens(x, ip + 1, Append(acc, [t |-> i.name, at |-> ip]))
Kinds(toks) == [j \in DOMAIN toks |-> toks[j].t]

ForkVerdict(x) ==
  LET r == Tokens(x, 1, <<>>) IN
  IF ~r.ok THEN [pat |-> "NotRecognised", addr |-> None, payload |-> 0]
  ELSE LET k == Kinds(r.toks)  at(j) == r.toks[j].at IN
       IF k = <<"DUP", "HASH160", "D", "EQUALVERIFY", "CHECKSIG">> THEN [pat |-> "Pay2PublicKeyHash", addr |-> [kind |-> "ver+payload", slot |-> at(3)], payload |-> 0]
       ELSE IF k = <<"D", "CHECKSIG">> THEN [pat |-> "Pay2PublicKey", addr |-> [kind |-> "ver+hash160", slot |-> at(1)], payload |-> 0]
       ELSE IF k = <<"HASH160", "D", "EQUAL">> THEN [pat |-> "Pay2ScriptHash", addr |-> [kind |-> "05+payload", slot |-> at(2)], payload |-> 0]
       ELSE IF k = <<"RETURN", "D">> THEN [pat |-> "OpReturn", addr |-> None, payload |-> at(2)]
       ELSE IF k = <<"N2", "D", "D", "D", "N3", "CHECKMULTISIG">> THEN [pat |-> "Pay2MultiSig", addr |-> None, payload |-> 0]
       ELSE [pat |-> "NotRecognised", addr |-> None, payload |-> 0]

-----------------------------------------------------------------------------
Init == s \in Universe
Next == UNCHANGED s
Spec == Init /\ [][Next]_vars

Pats == {"OpReturn", "Unspendable", "Pay2PublicKey", "Pay2PublicKeyHash", "Pay2ScriptHash", "Pay2WitnessPublicKeyHash",
         "Pay2WitnessScriptHash", "Pay2Taproot", "WitnessProgram", "Pay2MultiSig", "NotRecognised"}

\* every script gets a verdict (no stuck evaluation, C14) and the tokenizer never runs past the end
Total == BtcVerdict(s).pat \in Pats /\ ForkVerdict(s).pat \in Pats
\* the template rules are mutually exclusive: the cascade's order among them cannot matter
RulesFiring(x) == {r \in {"p2pk", "p2pkh", "p2sh", "wit", "ms"} :
                     \/ (r = "p2pk" /\ IsP2PK(x)) \/ (r = "p2pkh" /\ IsP2PKH(x)) \/ (r = "p2sh" /\ IsP2SH(x))
                     \/ (r = "wit" /\ IsWitness(x)) \/ (r = "ms" /\ IsMultisig(x))}
Deterministic == Cardinality(RulesFiring(s)) <= 1
\* an address is only ever derived from a complete push of the script itself
AddrFromPush == /\ BtcVerdict(s).addr.kind # "none" => IsPush(s[BtcVerdict(s).addr.slot])
                /\ ForkVerdict(s).addr.kind # "none" => (IsPush(s[ForkVerdict(s).addr.slot]) /\ s[ForkVerdict(s).addr.slot].len > 0)
\* a script ending in a truncated push never has an address nor a template type on fork coins
TruncNoAddr == (s # <<>> /\ s[Len(s)].k = "trunc") =>
                  /\ BtcVerdict(s).addr.kind = "none"
                  /\ ForkVerdict(s).pat = "NotRecognised"
\* inserting NOP-class opcodes never changes a fork verdict's type (C06: "no-op opcodes ignored")
NopTransparent == LET noNop == SelectSeq(s, LAMBDA i : ~(i.k = "op" /\ i.name \in NopClass))
                  IN ForkVerdict(s).pat = ForkVerdict(noNop).pat

Emit == PrintT(<<"REPLAY", ToJson([items |-> s, btc |-> BtcVerdict(s), fork |-> ForkVerdict(s), gray |-> MultisigGray(s)])>>)
=============================================================================
