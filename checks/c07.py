"""C07 / C08 - unspentcsvdump lists exactly the unspent address-bearing outputs; balances their per-address sums.

M: Utxo.tla (TLC: every history in the bound, built incrementally so every prefix is a state): UtxoIsUnspent, MidTx,
   NoAddressless, BalancesOfDump
R: every complete history of the bounded model -> real chain (txids in dependency order, forward references, duplicates,
   spends of unknown outpoints, address-less outputs, P2PK/P2PKH sharing an address) -> both dumps compared as row sets
   with the specification's final map / Balances; balances additionally vs the aggregation of the real unspent dump
T: long random histories (thousands of transactions, output indices past 255): spend/create/dump_row/bal_row events of the
   real run validated against Utxo.tla's effects (Trace_Utxo), incl. the `hit` flag of every removal
"""
import json
import os
import random
import struct

from lib import datadir, btc, chains, ref, run, tracecheck, utxohist

SKIP = 'tmp_create,idx_rec,idx_keep,idx_done,files,on_start,lookup,fetched,verify,rename,renamed,eval'


def parse_csv(data, header):
    lines = data.decode('utf-8', 'replace').splitlines()
    probs = []
    if not lines or lines[0] != header:
        probs.append('header row is %r' % (lines[:1],))
    rows = lines[1:]
    if header in rows:
        probs.append('header repeated')
    if len(set(rows)) != len(rows):
        probs.append('duplicate rows')
    return set(rows), probs


def run_both(w, d, nblk, coin='bitcoin', start=None, trace=False, stale=False, timeout=60):
    out = {}
    for cb, pre, header in (('unspentcsvdump', 'unspent', 'txid;indexOut;height;value;address'), ('balances', 'balances', 'address;balance')):
        tr = w.sub('trace') if trace else None
        dump = w.mk('out')
        if stale:
            # leftovers of an interrupted earlier run (longer than the new output) must not leak into the result
            junk = ('%s;0;0;5000000000;1BoatSLRHtKNngkdXEeobR76b53LETtpyT\n' % ('ab' * 32)).encode() * 60
            for n in ('unspent.csv.tmp', 'balances.csv.tmp'):
                with open(os.path.join(dump, n), 'wb') as f:
                    f.write(junk)
        r = run.run_parser(d.path, cb, dump=dump, coin=coin, start=start, trace=tr, skip=SKIP, timeout=timeout)
        r.files = {k: v for k, v in r.files.items() if not k.endswith('.tmp')}
        name = '%s-%d-%d.csv' % (pre, start or 0, nblk - 1)
        rows, probs = (set(), ['%s missing (exit %d, have %s) %s' % (name, r.rc, r.listing, r.stderr[-200:])]) if name not in r.files else parse_csv(r.files[name], header)
        out[cb] = (r, rows, probs, tr)
    return out


def aggregate(unspent_rows):
    bal = {}
    for row in unspent_rows:
        f = row.split(';')
        try:
            bal[f[4]] = bal.get(f[4], 0) + int(f[3])
        except (IndexError, ValueError):
            bal['<malformed row %r>' % row[:60]] = -1        # shows up as a difference, never as a crash of the check
    return {'%s;%d' % (a, s) for a, s in bal.items()}


def check_history(ck, w, pid, hist, rows, bal, coin, label, tags=()):
    try:
        blocks, txids = utxohist.concretise(hist, coin=coin)
    except utxohist.Cyclic:
        return 'cyclic'
    d = utxohist.write_chain(w, blocks, coin)
    out = run_both(w, d, len(blocks), coin, stale=len(hist) % 2 == 0 and hist[0]['ins'][0]['i'] == 0)
    exp_u, exp_b = utxohist.expected_rows(rows, bal, txids, coin=coin)
    ru, urows, uprobs, _ = out['unspentcsvdump']
    rb, brows, bprobs, _ = out['balances']
    res = []
    if pid == 'C07':
        probs = list(uprobs)
        if not probs and urows != exp_u:
            probs.append('unspent rows differ: unexpected %s, missing %s' % (sorted(urows - exp_u)[:3], sorted(exp_u - urows)[:3]))
        if probs:
            res.append(('; '.join(probs), ru))
    else:
        probs = list(bprobs)
        if not probs and brows != exp_b:
            probs.append('balances rows differ: unexpected %s, missing %s' % (sorted(brows - exp_b)[:3], sorted(exp_b - brows)[:3]))
        if not probs and not uprobs and brows != aggregate(urows):
            probs.append('balances is not the per-address aggregation of the unspent dump of the same directory')
        if probs:
            res.append(('; '.join(probs), rb))
    for what, r in res:
        ck.violation(what, {'history': hist, 'coin': coin, 'expected_unspent': sorted(exp_u), 'expected_balances': sorted(exp_b),
                            'observed': r.brief(), 'label': label, 'tags': list(tags)})
    return 'ok'


def nontrivial(hist):
    ids = [t['id'] for t in hist]
    created = set()
    for k, t in enumerate(hist):
        for x in t['ins']:
            if (x['t'], x['i']) in created or x['t'] > t['id']:
                return True
        if ids.count(t['id']) > 1:
            return True
        created |= {(t['id'], i) for i in range(len(t['outs']))}
    return False


def main(ck, tier, w, pid='C07'):
    quick = tier == 'quick'
    seed = run.seed()
    cfgs = ['MC_Utxo_q1', 'MC_Utxo_q2'] if quick else ['MC_Utxo_q1', 'MC_Utxo_q2', 'MC_Utxo_t1']
    replays = []
    for cfg in cfgs:
        res = run.tlc('MC_Utxo', cfg, workers=12, timeout=3300, heap='24g', coverage=cfg != 'MC_Utxo_t1')
        ck.add_tlc(res, cfg)
        if cfg != 'MC_Utxo_t1':
            ck.require_actions(res, ['MAddTx', 'MAddDuplicate', 'MSpendOne', 'MCreateOne'], cfg)
        replays += res.replay
    rng = random.Random(seed)
    rng.shuffle(replays)
    nt = [r for r in replays if nontrivial(r['hist'])]
    tr = [r for r in replays if not nontrivial(r['hist'])]
    pick = nt[:700 if quick else 12000] + tr[:100 if quick else 1500]
    ck.cov['complete_histories_in_model'] = len(replays)
    ck.cov['rule'] = ('TLC builds every history in the bound incrementally (invariants at every prefix); %d of the %d complete histories '
                      'replayed on real chains, plus long random histories trace-validated; non-trivial = history with a spend of an '
                      'output created earlier in the range, a forward reference or a duplicate transaction') % (len(pick), len(replays))
    cyc = [0]

    def one(item):
        i, r = item
        coin = 'bitcoin' if i % 3 else 'litecoin'
        st = check_history(ck, w, pid, r['hist'], r['rows'], r['bal'], coin, 'TLC history')
        return r, st
    for r, st in chains.pmap(one, list(enumerate(pick))):
        if st == 'cyclic':
            cyc[0] += 1
            continue
        ck.evals()
        ck.traces()
        if nontrivial(r['hist']):
            ck.distinct(json.dumps(r['hist'], sort_keys=True))
        ck.sample({'history': r['hist'], 'expected_rows': r['rows'], 'expected_balances': r['bal']}, limit=3)
    ck.cov['skipped_cyclic_forward_references'] = cyc[0]

    # T: long random histories
    jobs = []
    for i in range(4 if quick else 24):
        r0 = random.Random('%d-%s-T-%d' % (seed, pid, i))
        jobs.append((r0, r0.choice([150, 400] if quick else [300, 1200, 2500]), r0.choice([3, 12, 40]), i % 2 == 0))

    def tjob(j):
        r0, ntx, nblk, big = j
        hist = utxohist.random_history(r0, ntx, nblk, big_out_every=97 if big else 0)
        try:
            blocks, txids = utxohist.concretise(hist, unit=utxohist.U * 4001)
        except utxohist.Cyclic:
            return j, None
        d = utxohist.write_chain(w, blocks, nfiles=2)
        start = r0.choice([None, None, 1]) if len(blocks) > 2 else None
        out = run_both(w, d, len(blocks), start=start, trace=True)
        cb = 'unspentcsvdump' if pid == 'C07' else 'balances'
        r, rows, probs, tr = out[cb]
        chain = [(h, b) for h, b in enumerate(blocks) if h >= (start or 0)]
        exp = ref.utxo_expected(chain, 'bitcoin')
        want = ref.unspent_rows(exp) if pid == 'C07' else ref.balances_rows(exp)
        if not probs and rows != want:
            probs.append('%s rows differ from the reference: unexpected %s, missing %s' % (cb, sorted(rows - want)[:2], sorted(want - rows)[:2]))
        if pid == 'C08' and not probs and not out['unspentcsvdump'][2] and rows != aggregate(out['unspentcsvdump'][1]):
            probs.append('balances is not the aggregation of the unspent dump')
        return j, (r, probs, tr, len(hist), len(blocks), start)
    ran = [x for x in chains.pmap(tjob, jobs, 6) if x[1] is not None]
    verdicts = tracecheck.validate_many([x[1][2] for x in ran], module='Trace_Utxo', batch=1)
    for (j, (r, probs, tr, nh, nb, start)), v in zip(ran, verdicts):
        ck.evals()
        ck.traces()
        ck.distinct(('T', nh, nb, start, j[3]))
        ck.sample({'random_history': {'transactions': nh, 'blocks': nb, 'start': start, 'outputs_past_index_255': j[3],
                                      'events_validated': len(r.events)}}, limit=5)
        if not v['accepted']:
            probs.append('trace rejected by Utxo.tla: %s at event %s %s' % (v['reason'], v['rejected_at'], v['event'] or ''))
        if probs:
            ck.violation('; '.join(probs), {'scenario': {'transactions': nh, 'blocks': nb, 'start': start, 'seed': str(j[0])},
                                            'observed': r.brief(), 'trace_verdict': v, 'tags': []})
    # ---- every kind of script that bears an address on the coin (and many that do not), of any length: the dumps list an output
    # iff the evaluator gives it an address - storage adds no condition of its own
    from lib import scriptrep
    for coin in (['bitcoin', 'dogecoin'] if quick else list(btc.COINS)):
        rs = random.Random('%d-exotic-%s' % (seed, coin))
        scripts = [x for x in scriptrep.random_scripts(rs, 600) if len(x) <= 100000]
        per = (len(scripts) + 2) // 3
        eb, prev = [], b'\0' * 32
        made = []
        for h in range(4):
            txs = [btc.coinbase(h, btc.p2pkh(rs.randbytes(20)))]
            if h < 3:
                t = {'ver': 1, 'ins': [{'txid': rs.randbytes(32), 'idx': 0, 'sig': b'', 'seq': 0}],
                     'outs': [{'val': 1 + i, 'spk': x} for i, x in enumerate(scripts[h * per:(h + 1) * per])], 'lock': h}
                txs.append(t)
                made.append((btc.txid(t), len(t['outs'])))
            else:
                # spend every fifth of them again
                txs.append({'ver': 1, 'ins': [{'txid': tid_, 'idx': i, 'sig': b'', 'seq': 0} for tid_, n_ in made for i in range(0, n_, 5)],
                            'outs': [{'val': 3, 'spk': btc.p2pkh(rs.randbytes(20))}], 'lock': 9})
            eb.append(datadir.mk_block(prev, txs, t=1300000000 + h, nonce=h))
            prev = eb[-1]['hash']
        d = utxohist.write_chain(w, eb, nfiles=2, coin=coin)
        out = run_both(w, d, len(eb), coin=coin, timeout=300)
        exp = ref.utxo_expected(list(enumerate(eb)), coin)
        for cb, want in (('unspentcsvdump', ref.unspent_rows(exp)), ('balances', ref.balances_rows(exp))):
            r, rows, probs, _ = out[cb]
            ck.evals()
            ck.distinct(('exotic', coin, cb))
            if not probs and rows != want:
                probs = ['rows differ from the reference: unexpected %s, missing %s' % (sorted(rows - want)[:3], sorted(want - rows)[:3])]
            if probs and (pid == 'C07') == (cb == 'unspentcsvdump'):
                ck.violation('%s %s over outputs with %d scripts of every kind and length: %s' % (coin, cb, len(scripts), '; '.join(probs[:3])),
                             {'coin': coin, 'observed': r.brief(), 'tags': []})

    # ---- a dump larger than the writer's 4 MB buffer is complete or absent: under a file size limit inside it the run fails
    # and publishes nothing (the dump is either all rows or no file - C10 explores this in depth)
    rw = random.Random('%d-widefault' % seed)
    fb, prev = [], b'\0' * 32
    for h in range(3):
        fb.append(datadir.mk_block(prev, [btc.coinbase(h, btc.p2pkh(rw.randbytes(20))),
                                          {'ver': 1, 'ins': [{'txid': rw.randbytes(32), 'idx': 0, 'sig': b'', 'seq': 1}],
                                           'outs': [{'val': 1 + i, 'spk': b'\x76\xa9\x14' + rw.randbytes(20) + b'\x88\xac'} for i in range(40000)], 'lock': 0}],
                                   t=1300000000 + h, nonce=h))
        prev = fb[-1]['hash']
    fd = utxohist.write_chain(w, fb)
    cbx, prex = ('unspentcsvdump', 'unspent') if pid == 'C07' else ('balances', 'balances')
    for lim in (None, 3000000, 4100000):
        r = run.run_parser(fd.path, cbx, dump=w.mk('out'), fsize=lim, timeout=300)
        size = len(r.files.get('%s-0-2.csv' % prex, b''))
        nrows = r.files.get('%s-0-2.csv' % prex, b'').count(b'\n') - 1
        ck.evals()
        ck.distinct(('widefault', cbx, lim))
        if lim is None:
            if r.rc != 0 or nrows != 120003 or size <= 4100000:
                ck.violation('%s of 120 003 addressed outputs: exit %d, %d rows, %d bytes' % (cbx, r.rc, nrows, size), {'observed': r.brief(), 'tags': []})
        elif r.rc == 0 or ('%s-0-2.csv' % prex) in r.files:
            ck.violation('%s under a %d byte file size limit: exit %d and %s-0-2.csv published with %d of 120 003 rows' % (cbx, lim, r.rc, prex, nrows),
                         {'rlimit_fsize': lim, 'observed': r.brief(), 'tags': []})

    # ---- chains indexed around heights at which consensus rules or historical accidents sit (BIP30's repeated coinbases, soft
    # forks, halvings): the UTXO bookkeeping has no rule that depends on a height
    from lib import extremes as xt
    hs = xt.SPECIAL_HEIGHTS if not quick else [h for k, h in enumerate(xt.SPECIAL_HEIGHTS) if (k + seed) % 2 == 1 or h in (91842, 91880)]

    def sp(h):
        coin = ['litecoin', 'bitcoin', 'dogecoin', 'testnet3', 'namecoin'][h % 5]
        sb = xt.special_height_chain(h, coin, seed)
        sd = datadir.simple_dir(w.sub('dd'), sb, coin, h0=h - 1)
        sd.write()
        out = {}
        chain = [(h - 1 + k, b) for k, b in enumerate(sb)]
        exp = ref.utxo_expected(chain, coin)
        for cb, pre, want in (('unspentcsvdump', 'unspent', ref.unspent_rows(exp)), ('balances', 'balances', ref.balances_rows(exp))):
            r = run.run_parser(sd.path, cb, dump=w.mk('out'), coin=coin, start=h - 1)
            rows = set(r.files.get('%s-%d-%d.csv' % (pre, h - 1, h + 1), b'').decode('utf-8', 'replace').splitlines()[1:])
            out[cb] = (r, rows, want)
        return h, coin, out
    for h, coin, out in chains.pmap(sp, hs, 8):
        for cb, (r, rows, want) in out.items():
            ck.evals()
            ck.distinct(('special-height', h, coin, cb))
            if (r.rc != 0 or rows != want) and (pid == 'C07') == (cb == 'unspentcsvdump'):
                ck.violation('%s %s over a chain indexed at heights %d..%d: exit %d, unexpected rows %s, missing rows %s' % (
                    coin, cb, h - 1, h + 1, r.rc, sorted(rows - want)[:3], sorted(want - rows)[:3]), {'coin': coin, 'heights': [h - 1, h, h + 1], 'observed': r.brief(), 'tags': []})

    # ---- the longest rows there are (74-character addresses, 20-digit values, 5-digit indices, 7-digit heights), 70 000 of them:
    # 12 MB of rows, whatever unit the writer hands them over in
    rl = random.Random('%d-longrows' % seed)
    lt = {'ver': 1, 'ins': [{'txid': rl.randbytes(32), 'idx': 0, 'sig': b'', 'seq': 0}],
          'outs': [{'val': 10 ** 19 + i, 'spk': b'\x60\x28' + i.to_bytes(4, 'big') * 10} for i in range(70000)], 'lock': 0}
    lb = [datadir.mk_block(rl.randbytes(32), [btc.coinbase(1234567, btc.p2pkh(rl.randbytes(20))), lt], t=1300000000, nonce=1)]
    ld = datadir.simple_dir(w.sub('dd'), lb, 'bitcoin', h0=1234567)
    ld.write()
    lexp = ref.utxo_expected([(1234567, lb[0])], 'bitcoin')
    for cb, pre, want in (('unspentcsvdump', 'unspent', ref.unspent_rows(lexp)), ('balances', 'balances', ref.balances_rows(lexp))):
        if (pid == 'C07') != (cb == 'unspentcsvdump'):
            continue
        r = run.run_parser(ld.path, cb, dump=w.mk('out'), start=1234567, timeout=300)
        rows = set(r.files.get('%s-1234567-1234567.csv' % pre, b'').decode('utf-8', 'replace').splitlines()[1:])
        ck.evals()
        ck.distinct(('longrows', cb))
        if r.rc != 0 or rows != want:
            ck.violation('%s of 70 001 outputs with maximal-length rows: exit %d, %d rows written, %d expected, %d of them missing' % (cb, r.rc, len(rows), len(want), len(want - rows)),
                         {'observed': r.brief(), 'tags': []})

    # ---- two transactions whose txids agree in their first (or last) four bytes, spent by adjacent inputs of one transaction:
    # an outpoint is all 36 bytes
    import hashlib
    rc_ = random.Random('%d-collide' % seed)
    spk_a, spk_b, spk_c = (btc.p2pkh(rc_.randbytes(20)) for _ in range(3))
    base = {'ver': 1, 'ins': [{'txid': rc_.randbytes(32), 'idx': 0, 'sig': b'', 'seq': 0}], 'outs': [{'val': 700, 'spk': spk_a}, {'val': 800, 'spk': spk_b}], 'lock': 0}
    raw = btc.ser_tx(base, False)
    seen_p, seen_s, pairs = {}, {}, []
    for lock in range(400000):
        tid_ = hashlib.sha256(hashlib.sha256(raw[:-4] + struct.pack('<I', lock)).digest()).digest()
        for seen, key in ((seen_p, tid_[:4]), (seen_s, tid_[-4:])):
            if key in seen and len(pairs) < 2 and all(seen is not q[2] for q in pairs):
                pairs.append((seen[key], lock, seen))
            seen.setdefault(key, lock)
        if len(pairs) == 2:
            break
    ck.cov['txid_prefix_suffix_collisions_found'] = len(pairs)
    if pairs:
        txs0 = [btc.coinbase(0, spk_c)]
        spends = []
        for l1, l2, _ in pairs:
            t1, t2 = dict(base, lock=l1), dict(base, lock=l2)
            txs0 += [t1, t2]
            spends.append({'ver': 1, 'ins': [{'txid': btc.txid(t1), 'idx': 0, 'sig': b'', 'seq': 0}, {'txid': btc.txid(t2), 'idx': 0, 'sig': b'', 'seq': 0},
                                             {'txid': btc.txid(t2), 'idx': 1, 'sig': b'', 'seq': 0}, {'txid': btc.txid(t1), 'idx': 1, 'sig': b'', 'seq': 0}][:3 + len(spends)],
                           'outs': [{'val': 5, 'spk': spk_c}], 'lock': 7})
        cbk = [datadir.mk_block(b'\0' * 32, txs0, t=1300000000, nonce=0)]
        cbk.append(datadir.mk_block(cbk[0]['hash'], [btc.coinbase(1, spk_c)] + spends, t=1300000600, nonce=1))
        cd_ = utxohist.write_chain(w, cbk)
        out = run_both(w, cd_, 2)
        cexp = ref.utxo_expected(list(enumerate(cbk)), 'bitcoin')
        for cb, want in (('unspentcsvdump', ref.unspent_rows(cexp)), ('balances', ref.balances_rows(cexp))):
            r, rows, probs, _ = out[cb]
            ck.evals()
            ck.distinct(('collide', cb))
            if not probs and rows != want:
                probs = ['rows differ from the reference: unexpected %s, missing %s' % (sorted(rows - want)[:3], sorted(want - rows)[:3])]
            if probs and (pid == 'C07') == (cb == 'unspentcsvdump'):
                ck.violation('%s: adjacent inputs spending transactions whose txids share four leading / trailing bytes: %s' % (cb, '; '.join(probs[:3])),
                             {'txids': [btc.txid(t).hex() for t in txs0[1:]], 'observed': r.brief(), 'tags': []})

    # ---- spenders of unusual shape (their inputs are spent like any other's): a transaction whose FIRST input is the null outpoint
    # but which has further inputs (no coinbase), one whose outputs are all OP_RETURN, one without outputs; and consecutive ranges
    # dumped into ONE folder (the dump of s..e starts from nothing, whatever earlier dumps lie there)
    rq = random.Random('%d-shapes' % seed)
    pa, pb_, pc = (btc.p2pkh(rq.randbytes(20)) for _ in range(3))
    # (its counts and one script length are stored with non-minimal CompactSize encodings: the txid its spenders name is the hash of
    # the bytes as stored)
    fund = {'ver': 1, 'ins': [{'txid': rq.randbytes(32), 'idx': 0, 'sig': b'', 'seq': 0, 'w': 3}], 'outs': [{'val': 5000 + i, 'spk': [pa, pb_, pc][i % 3]} for i in range(6)], 'lock': 0,
            'w_in': 3, 'w_out': 5}
    fund['outs'][4]['w'] = 9
    ft = btc.txid(fund)
    null_in = {'txid': b'\0' * 32, 'idx': 0xffffffff, 'sig': b'\x01\x01', 'seq': 0xffffffff}
    sp1 = {'ver': 1, 'ins': [null_in, {'txid': ft, 'idx': 0, 'sig': b'', 'seq': 0}, {'txid': ft, 'idx': 1, 'sig': b'', 'seq': 0}], 'outs': [{'val': 1, 'spk': pc}], 'lock': 1}
    sp2 = {'ver': 1, 'ins': [{'txid': ft, 'idx': 2, 'sig': b'', 'seq': 0}], 'outs': [{'val': 0, 'spk': b'\x6a' + btc.push(b'data only')}, {'val': 0, 'spk': b'\x6a\x01x'}], 'lock': 2}
    sp3 = {'ver': 1, 'ins': [{'txid': ft, 'idx': 3, 'sig': b'', 'seq': 0}], 'outs': [], 'lock': 3}
    qb, prev = [], b'\0' * 32
    for h, txs in enumerate([[btc.coinbase(0, pa), fund], [btc.coinbase(1, pb_), sp1], [btc.coinbase(2, pc), sp2], [btc.coinbase(3, pa), sp3], [btc.coinbase(4, pb_)]]):
        qb.append(datadir.mk_block(prev, txs, t=1300000000 + h, nonce=h))
        prev = qb[-1]['hash']
    qd = utxohist.write_chain(w, qb)
    shared = w.mk('out')
    for s_, e_ in ((None, None), (None, 1), (2, 3), (4, None), (2, None)):
        lo, hi = s_ or 0, 4 if e_ is None else e_
        qexp = ref.utxo_expected([(h, qb[h]) for h in range(lo, hi + 1)], 'bitcoin')
        for cb, pre, want in (('unspentcsvdump', 'unspent', ref.unspent_rows(qexp)), ('balances', 'balances', ref.balances_rows(qexp))):
            if (pid == 'C07') != (cb == 'unspentcsvdump'):
                continue
            r = run.run_parser(qd.path, cb, dump=shared, start=s_, end=e_)
            rows = set(r.files.get('%s-%d-%d.csv' % (pre, lo, hi), b'').decode('utf-8', 'replace').splitlines()[1:])
            ck.evals()
            ck.distinct(('shapes', cb, s_, e_))
            if r.rc != 0 or rows != want:
                ck.violation('%s --start %s --end %s into a folder that holds the dumps of the earlier ranges %s: exit %d, unexpected rows %s, missing rows %s' % (
                    cb, s_, e_, [f for f in r.listing if f.startswith(pre)], r.rc, sorted(rows - want)[:3], sorted(want - rows)[:3]), {'start': s_, 'end': e_, 'observed': r.brief(), 'tags': []})

    # ---- counts beyond 16 bits: a transaction with more than 65 536 outputs / inputs (indices are 32-bit on the wire) -----------
    r0 = random.Random('%d-wide' % seed)
    A = [btc.p2pkh(r0.randbytes(20)) for _ in range(3)]
    NO = 65540
    marks = {0: A[0], 1: A[1], 255: A[0], 256: A[2], 65535: A[1], 65536: A[2], 65537: A[0], 65539: A[1]}
    T = {'ver': 1, 'ins': [{'txid': r0.randbytes(32), 'idx': 0, 'sig': b'', 'seq': 0}],
         'outs': [{'val': 1000 + i, 'spk': marks.get(i, b'\x6a')} for i in range(NO)], 'lock': 0}
    tid = btc.txid(T)
    spend1 = {'ver': 1, 'ins': [{'txid': tid, 'idx': 0, 'sig': b'', 'seq': 0}, {'txid': tid, 'idx': 65537, 'sig': b'', 'seq': 0}],
              'outs': [{'val': 7, 'spk': A[2]}], 'lock': 1}
    many_in = {'ver': 1, 'ins': [{'txid': r0.randbytes(32) if i != 65536 else tid, 'idx': 256 if i == 65536 else i, 'sig': b'', 'seq': 0} for i in range(65600)],
               'outs': [{'val': 9, 'spk': A[0]}], 'lock': 2}
    wb, prev = [], b'\0' * 32
    for h, txs in enumerate([[btc.coinbase(0, A[1]), T], [btc.coinbase(1, A[1]), spend1], [btc.coinbase(2, A[0]), many_in]]):
        wb.append(datadir.mk_block(prev, txs, t=1300000000 + h, nonce=h))
        prev = wb[-1]['hash']
    d = utxohist.write_chain(w, wb, nfiles=2)
    out = run_both(w, d, len(wb), timeout=300)
    exp = ref.utxo_expected(list(enumerate(wb)), 'bitcoin')
    for cb, want in (('unspentcsvdump', ref.unspent_rows(exp)), ('balances', ref.balances_rows(exp))):
        r, rows, probs, _ = out[cb]
        ck.evals()
        ck.distinct(('wide', cb))
        if not probs and rows != want:
            probs = ['rows differ from the reference: unexpected %s, missing %s' % (sorted(rows - want)[:4], sorted(want - rows)[:4])]
        if probs and (pid == 'C07') == (cb == 'unspentcsvdump'):
            ck.violation('%s over a chain with a 65 540-output and a 65 600-input transaction: %s' % (cb, '; '.join(probs[:3])),
                         {'scenario': 'addressed outputs at indices %s; spends of 0, 65537 and 256' % sorted(marks), 'observed': r.brief(), 'tags': []})
    if pid == 'C08' and not quick:
        # more than 2^20 unspent outputs over a handful of addresses (the real UTXO set has tens of millions)
        r0 = random.Random('%d-huge' % seed)
        spks = [btc.p2pkh(r0.randbytes(20)) for _ in range(7)]
        blocks, prev = [], b'\0' * 32
        for h in range(45):
            txs = [btc.coinbase(h, None, outs=[{'val': 0, 'spk': b'\x6a\x01x'}])]
            for k in range(10 if h else 0):
                txs.append({'ver': 1, 'ins': [{'txid': r0.randbytes(32), 'idx': 0, 'sig': b'', 'seq': 0}],
                            'outs': [{'val': r0.randrange(10 ** 6), 'spk': spks[(j * 7 + k + h) % 7]} for j in range(3000)], 'lock': h * 100 + k})
            b = datadir.mk_block(prev, txs, t=1300000000 + h, nonce=h)
            blocks.append(b)
            prev = b['hash']
        d = utxohist.write_chain(w, blocks, nfiles=3)
        out = run_both(w, d, len(blocks), timeout=1200)
        rb, brows, bprobs, _ = out['balances']
        ru, urows, uprobs, _ = out['unspentcsvdump']
        ck.evals(2)
        ck.distinct(('huge', len(urows)))
        ck.cov['huge_unspent_set_rows'] = len(urows)
        exp = ref.utxo_expected(list(enumerate(blocks)), 'bitcoin')
        probs = list(bprobs) + list(uprobs)
        if not probs and urows != ref.unspent_rows(exp):
            probs.append('unspent rows of the 1.3M-output chain differ from the reference')
        if not probs and brows != ref.balances_rows(exp):
            probs.append('balances of the 1.3M-output chain differ: %s vs %s' % (sorted(brows)[:3], sorted(ref.balances_rows(exp))[:3]))
        if not probs and brows != aggregate(urows):
            probs.append('balances is not the aggregation of the unspent dump (1.3M outputs)')
        if probs:
            ck.violation('; '.join(probs), {'scenario': '45 blocks, 440 transactions x 3000 outputs, 7 addresses', 'observed': rb.brief(), 'tags': []})

    ck.assumptions += ['total value per address below 2^64', 'forward references whose txids would depend on each other cyclically '
                       'cannot exist as real transactions and are skipped (counted in the evidence)']
