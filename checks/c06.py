"""C06 - fork coins: Bitcoin push rules, template typing, version bytes (see c05.py: same model, fork family)."""
from checks import c05


def main(ck, tier, w):
    c05.main(ck, tier, w, pid='C06')
