"""C11 - XOR-obfuscated blk files give the same result as plaintext ones.

M: XorReader.tla (TLC: all call sequences seek/read/reopen over every buffer capacity x key length) - PosTrue, Plain
R: (a) every TLC call sequence replayed through the real XorReader<seek_bufread::BufReader<File>> (driver xor-ops) at the
       model's geometry and scaled to the production 32 KiB buffer; returned bytes and positions vs. plaintext
   (b) every layout of MC_Layout materialised plain and XOR-ed (keys of length 1..64, zero, random): outputs byte-identical
"""
import os
import random

from lib import chains, layout, run


def driver_batch(w, flen, cap, key, seqs, scale, rng):
    """seqs: list of op lists [{'op','arg'}]; returns list of problems"""
    plain = rng.randbytes(flen * scale)
    path = w.sub('xf')
    with open(path, 'wb') as f:
        if key:
            kk = (key * (len(plain) // len(key) + 1))[:len(plain)]
            f.write(bytes(a ^ b for a, b in zip(plain, kk)))
        else:
            f.write(plain)
    lines = ['%s %s %d' % (path, key.hex() if key else '-', cap * scale)]
    expect = []
    for ops in seqs:
        pos = 0
        for o in ops:
            if o['op'] == 'seek':
                p = o['arg'] * scale
                if scale > 1 and 0 < p < len(plain):
                    p = max(0, min(len(plain), p + rng.randrange(-3, 4)))
                pos = p
                lines.append('seek %d' % p)
                expect.append(('seek', p, None))
            elif o['op'] == 'read':
                n = o['arg'] * scale
                if scale > 1:
                    n = max(1, n + rng.randrange(-3, 4))
                data = plain[pos:pos + n]
                pos += len(data)
                lines.append('read %d' % n)
                expect.append(('read', pos, data))
            else:
                pos = 0
                lines.append('reopen')
                expect.append(('reopen', 0, None))
        lines.append('reopen')
        expect.append(('reopen', 0, None))
    rc, outs, err = run.run_driver('xor-ops', lines)
    os.unlink(path)
    if len(outs) != len(expect):
        raise run.ToolError('xor-ops answered %d of %d ops: %s' % (len(outs), len(expect), err[-300:]))
    probs = []
    si = 0
    k = 0
    for ops in seqs:
        for j in range(len(ops) + 1):
            got, (op, pos, data) = outs[k], expect[k]
            k += 1
            if not isinstance(got, dict) or got.get('pos') != pos or (data is not None and got.get('data') != data.hex()):
                probs.append({'ops': ops, 'step': j, 'expected': {'pos': pos, 'data': data.hex() if data is not None else None},
                              'observed': got, 'cap': cap * scale, 'key': key.hex() if key else None})
                break
        k = sum(len(s) + 1 for s in seqs[:si + 1])
        si += 1
    return probs


def main(ck, tier, w):
    quick = tier == 'quick'
    seed = run.seed()
    cfg = 'XorReader_q' if quick else 'XorReader_t'
    res = run.tlc('XorReader', cfg, workers=8, timeout=1800)
    ck.add_tlc(res, cfg)
    ck.require_actions(res, ['SeekStart', 'Read', 'Reopen'], cfg)
    groups = {}
    for rp in res.replay:
        groups.setdefault((rp['b'], rp['k']), []).append(rp['ops'])
    flen = 10
    ck.cov['exhaustive'] = quick
    ck.cov['rule'] = ('all sequences of %d calls (seek 0..len, read 1..6, reopen) x capacity {2..5} x key length {1,2,3,5} '
                      'replayed on the real reader at model scale and x8192; non-trivial = sequence containing a backward '
                      'seek or a read crossing a buffer refill') % (3 if quick else 4)

    def one(item):
        (b, k), seqs = item
        rng = random.Random('%d-%d-%d' % (seed, b, k))
        key = rng.randbytes(k)
        # quick: every sequence of the model; thorough: the model has millions, a seeded sample of 25 000 per geometry is replayed
        base = seqs if len(seqs) <= 25000 else rng.sample(seqs, 25000)
        out = driver_batch(w, flen, b, key, base, 1, rng)
        sub = rng.sample(seqs, min(len(seqs), 300 if quick else 5000))
        out += driver_batch(w, flen, b, rng.randbytes(rng.choice([1, 8, 8, 13, 64])), sub, 8192, rng)
        out += driver_batch(w, flen, b, bytes(8), sub[:100], 8192, rng)
        return (b, k), len(base) + len(sub) + min(len(sub), 100), out
    for (b, k), n, probs in chains.pmap(one, sorted(groups.items()), 8):
        ck.evals(n)
        ck.traces(n)
        for ops in groups[(b, k)]:
            pos = 0
            for o in ops:
                if o['op'] == 'seek':
                    if o['arg'] < pos:
                        ck.distinct((b, k, str(ops)))
                    pos = o['arg']
                elif o['op'] == 'read':
                    if (pos % b) + o['arg'] > b:
                        ck.distinct((b, k, str(ops)))
                    pos += o['arg']
        if groups[(b, k)]:
            ck.sample({'capacity': b, 'key_len': k, 'calls': groups[(b, k)][len(groups[(b, k)]) // 2]})
        for p in probs[:3]:
            ck.violation('real XorReader diverges from the plaintext: %s' % str(p)[:300], dict(p, tags=[]))

    # (a') the same reader beyond 4 GiB: sparse file, key lengths that do and do not divide 2^32
    def far(klen):
        rng = random.Random('%d-far-%d' % (seed, klen))
        base = rng.choice([2 ** 32, 2 ** 32 + 1, 2 ** 32 + 4093, 5 * 2 ** 30 + 13, 2 ** 33 + 7]) - 40
        plain = rng.randbytes(70000)
        key = rng.randbytes(klen)
        path = w.sub('xfar')
        with open(path, 'wb') as f:
            f.seek(base)
            kk = (key * (len(plain) // klen + 2))
            off = base % klen
            f.write(bytes(a ^ b for a, b in zip(plain, kk[off:off + len(plain)])))
        lines = ['%s %s %d' % (path, key.hex(), 32768)]
        expect = []
        pos = 0
        for _ in range(40):
            if rng.random() < 0.5:
                pos = base + rng.randrange(0, len(plain) - 100)
                lines.append('seek %d' % pos)
                expect.append((pos, None))
            n = rng.choice([1, 4, 80, 300, 33000])
            data = plain[pos - base:pos - base + n] if pos >= base else None
            if data is None:
                pos = base
                lines.append('seek %d' % pos)
                expect.append((pos, None))
                data = plain[:n]
            pos += len(data)
            lines.append('read %d' % n)
            expect.append((pos, data))
        rc, outs, err = run.run_driver('xor-ops', lines)
        os.unlink(path)
        if len(outs) != len(expect):
            raise run.ToolError('xor-ops (far) answered %d of %d' % (len(outs), len(expect)))
        for k, (got, (p, d)) in enumerate(zip(outs, expect)):
            if not isinstance(got, dict) or got.get('pos') != p or (d is not None and got.get('data') != d.hex()):
                return klen, base, 'call %d (%s): position/data differ from the plaintext at offset %d (got pos %s)' % (k, lines[k + 1], p, got.get('pos') if isinstance(got, dict) else got)
        return klen, base, None
    for klen, base, p in chains.pmap(far, [1, 2, 3, 5, 7, 8, 8, 12, 13, 31, 64]):
        ck.evals(40)
        ck.traces()
        ck.distinct(('far', klen, base))
        if p:
            ck.violation('key length %d, file offsets from %d: %s' % (klen, base, p), {'key_len': klen, 'base_offset': base, 'tags': []})
    ck.sample({'beyond_4GiB': {'key_lengths': [1, 2, 3, 5, 7, 8, 12, 13, 31, 64], 'first_offset_about': 2 ** 32}})

    # (b) end-to-end: layouts plain vs obfuscated
    lcfg = 'MC_Layout_q' if quick else 'MC_Layout_t'
    lres = run.tlc('MC_Layout', lcfg, workers=8, timeout=1500)
    ck.add_tlc(lres, lcfg)
    obs_list = lres.replay
    random.Random(seed).shuffle(obs_list)
    obs_list = obs_list[:150 if quick else 3000]

    def e2e(item):
        i, obs = item
        rng = random.Random('%d-e2e-%d' % (seed, i))
        n = len(obs['lay'])
        coin = rng.choice(['bitcoin', 'bitcoin', 'namecoin', 'litecoin'])
        big = rng.random() < 0.3
        txs_fn = (lambda h, c: chains.std_txs(h, c) + [fat_tx(h, rng_bytes=[40000, 70000, 140000][(i + h) % 3])]) if big else chains.std_txs
        blocks = chains.std_chain(n, coin, txs_fn=txs_fn)
        if i % 4 == 1:
            # length prefixes that do not tell the truth (a block is decoded structurally; the prefix is only reported): too small,
            # too large, zero, all ones - the same in the plaintext and in the obfuscated directory
            for k, b in enumerate(blocks):
                ln = len(b['raw'])
                b['size'] = [ln, max(81, ln - 1 - rng.randrange(ln // 2)), 100, ln + 1 + rng.randrange(5000), 0, 0xffffffff, 81, 8 * 2 ** 20 - 1][(i // 4 + k) % 8]
        placement = [(p['file'], p['slot']) for p in obs['lay']]
        fileno = {f: f for f in range(10)}
        keylen = rng.choice([1, 2, 3, 7, 8, 8, 8, 13, 32, 64])
        # random, all-zero, and keys that only START with zero bytes (a file XOR-ed with such a key still begins with the
        # network magic: it must be de-obfuscated all the same)
        key = rng.choice([bytes(keylen), rng.randbytes(keylen), rng.randbytes(keylen),
                          (bytes(4) + rng.randbytes(60))[:max(keylen, 5)], bytes(12) + b'\x80' + bytes(51)])
        if i % 6 == 4:
            # "any length": keys far longer than Bitcoin Core's 8 bytes - 4097, 5000, 70 000 bytes (longer than the read buffer)
            key = rng.randbytes([4097, 5000, 70000, 4096, 65][(i // 6) % 5])
        if i % 6 == 0:
            # keys that repeat a shorter pattern without the pattern dividing the key length (their shortest period is not a period
            # of the stream they generate)
            key = [bytes.fromhex('aabbaabbaa'), bytes.fromhex('09080709080709'), b'ab' * 4 + b'a', b'xyz' * 21 + b'x', bytes.fromhex('0000010000010000')][(i // 6) % 5]
        if i % 6 == 2:
            # keys whose bytes happen to be printable text (hex digits, a trailing newline, blanks): the file holds the key itself
            key = [b'0123456789abcdef', b'DEADBEEF00c0ffee\n', b'4f1d09c2e8a07b35', b'00000000', b' ', b'\n', b'0x1234567890abcdef', b'AAAAAAAAAAA=', b'key\r\n'][(i // 6) % 9]
        outs = []
        for xk in (None, key):
            r1 = random.Random('%d-e2e-%d-phys' % (seed, i))      # same physical layout for both
            d = layout.materialise(w.sub('dd'), blocks, placement, r1, coin=coin, xor_key=xk, fileno=fileno, pad=i % 3 != 0,
                                   namer=lambda n: 'blk%05d.dat' % n,
                                   big_offset=(n - 1, 2 ** 32 + 8 + (i * 7919) % 50000) if i % 10 == 0 else None)
            cb = rng.choice(['csvdump', 'csvdump', 'unspentcsvdump', 'balances', 'simplestats', 'opreturn']) if xk is None else cb
            outs.append(layout.run_csv(w, d, coin, obs['start'], obs['end'], cb=cb))
        a, b = outs
        probs = []
        if a.rc != 0 or b.rc != 0:
            probs.append('exit status plain=%d xor=%d %s' % (a.rc, b.rc, b.stderr[-200:]))
        elif cb == 'csvdump' and a.files != b.files:
            probs.append('csvdump output differs between the plaintext and the obfuscated directory')
        elif cb in ('unspentcsvdump', 'balances') and {k: sorted(v.splitlines()) for k, v in a.files.items()} != {k: sorted(v.splitlines()) for k, v in b.files.items()}:
            probs.append('%s row sets differ between the plaintext and the obfuscated directory' % cb)
        elif cb == 'opreturn' and chains.strip_log(a.out) != chains.strip_log(b.out):
            probs.append('opreturn lines differ')
        elif cb == 'simplestats':
            sa, sb = chains.parse_stats(a.stdout), chains.parse_stats(b.stdout)
            if sa != sb:
                probs.append('simplestats figures differ: %s vs %s' % (sa, sb))
        if cb == 'csvdump' and not probs:
            probs += layout.compare_csv(b, layout.expected_csv(blocks, obs['ids'], coin), obs['start'], obs['heights'][-1])
        return obs, key, cb, coin, big, probs, b
    for obs, key, cb, coin, big, probs, r in chains.pmap(e2e, list(enumerate(obs_list))):
        ck.evals()
        ck.traces()
        ck.distinct(('e2e', str(obs['lay']), len(key), cb, big))
        if probs:
            ck.violation('; '.join(probs), {'scenario': obs, 'key': key.hex(), 'callback': cb, 'coin': coin, 'big_blocks': big,
                                            'observed': r.brief(), 'tags': []})
    ck.assumptions += ['xor.dat holds a non-empty key; the key repeats from file offset 0 (Bitcoin Core >= 28 behaviour)']


def fat_tx(h, rng_bytes=40000):
    """a transaction larger than the 32 KiB read buffer"""
    from lib import btc
    r = random.Random(h)
    return {'ver': 2, 'ins': [{'txid': r.randbytes(32), 'idx': 0, 'sig': r.randbytes(rng_bytes), 'seq': 0xfffffffe}],
            'outs': [{'val': 1000 + h, 'spk': btc.p2pkh(r.randbytes(20))}], 'lock': 0}
