"""C17 - open blk files stay bounded by the files overlapping the current height; closed files are reopened.

M: MC_Layout (TLC): OpenNeeded, OpenBound, Reopened over every placement x range
T: (main binding) every TLC layout and random layouts with up to 400 files are run with the hooks on; the logged set of
   open files after every fetch is validated against BlockParser.tla (Trace_Run), OpenNeeded evaluated at every step
R: black box - layouts with hundreds of files whose height spans do not overlap must run under RLIMIT_NOFILE = (minimum
   that lets the single-file layout of the same chain pass) + 3
"""
import os
import random
import struct

from lib import btc, chains, datadir, layout, run, tracecheck


def min_nofile(w, d, coin, lo=4, hi=64):
    """smallest RLIMIT_NOFILE under which the run succeeds (bisection)"""
    def ok(n):
        return layout.run_csv(w, d, coin, 0, None, nofile=n).rc == 0
    if not ok(hi):
        raise run.ToolError('single-file layout fails even with %d descriptors' % hi)
    while lo < hi:
        mid = (lo + hi) // 2
        if ok(mid):
            hi = mid
        else:
            lo = mid + 1
    return lo


def main(ck, tier, w):
    quick = tier == 'quick'
    seed = run.seed()
    cfg = 'MC_Layout_q' if quick else 'MC_Layout_t'
    res = run.tlc('MC_Layout', cfg, workers=8, timeout=1500)
    ck.add_tlc(res, cfg)
    ck.require_actions(res, ['Open', 'SeekRead', 'CloseIfLast', 'Deliver'], cfg)
    obs_list = res.replay
    random.Random(seed).shuffle(obs_list)
    obs_list = obs_list[:120 if quick else 2500]
    ck.cov['rule'] = ('layouts from TLC (sampled %d of %d terminal states) and random layouts with up to 400 files; every run '
                      'traced and validated; non-trivial = layout in which some file is closed and reopened or two files '
                      'overlap in height') % (len(obs_list), len(res.replay))

    def one(item):
        i, obs = item
        rng = random.Random('%d-c17-%d' % (seed, i))
        n = len(obs['lay'])
        blocks = chains.std_chain(n)
        placement = [(p['file'], p['slot']) for p in obs['lay']]
        d = layout.materialise(w.sub('dd'), blocks, placement, rng, extra_file=obs['extra'])
        tr = w.sub('trace')
        r = layout.run_csv(w, d, 'bitcoin', obs['start'], obs['end'], trace=tr)
        return obs, r, tr
    ran = chains.pmap(one, list(enumerate(obs_list)))
    verdicts = tracecheck.validate_many([x[2] for x in ran])
    for (obs, r, tr), v in zip(ran, verdicts):
        ck.evals()
        ck.traces()
        files = [p['file'] for p in obs['lay']]
        if any(files[i] != files[i + 1] and files[i] in files[i + 2:] for i in range(len(files) - 2)) or len(set(files)) > 1:
            ck.distinct(str(obs['lay']) + str((obs['start'], obs['end'])))
        probs = []
        if r.rc != obs['exit']:
            probs.append('exit status %d, specification says %d: %s' % (r.rc, obs['exit'], r.stderr[-200:]))
        if not v['accepted']:
            probs.append('trace rejected: %s at event %s %s' % (v['reason'], v['rejected_at'], v['event'] or ''))
        if probs:
            ck.violation('; '.join(probs), {'scenario': obs, 'observed': r.brief(), 'trace_verdict': v, 'tags': []})

    # random big layouts
    jobs = []
    for i in range(6 if quick else 40):
        r0 = random.Random('%d-c17T-%d' % (seed, i))
        nf = r0.choice([1, 5, 60, 200] if quick else [1, 2, 30, 150, 400])
        n = max(nf, r0.choice([80, 200] if quick else [100, 400, 800]))
        mode = r0.choice(['disjoint', 'interleaved', 'reversed', 'random'])
        s = r0.choice([0, 0, r0.randrange(n)])
        e = r0.choice([None, None, r0.randrange(s + 1, n + 2)])
        jobs.append((n, nf, mode, s, e, r0))

    # blocks of 1 MB / 2 MB / 4 MB (the largest a network produces) in files with disjoint height spans
    jobs.append((24, 12, 'disjoint', 0, None, random.Random('%d-c17-bigblocks' % seed), 'big'))

    def tjob(j):
        n, nf, mode, s, e, r0 = j[:6]
        if len(j) > 6:
            sizes = {h: [1050000, 2100000, 4200000][(h // 2) % 3] for h in range(1, n, 2)}
            blocks = chains.std_chain(n, txs_fn=lambda h, c: [btc.coinbase(h, None, outs=[{'val': 50, 'spk': btc.p2pkh(b'\x55' * 20)}] + (
                [{'val': 0, 'spk': b'\x6a' + btc.push(bytes([h % 251]) * sizes[h])}] if h in sizes else []))])
        else:
            blocks = chains.std_chain(n)
        pl = layout.random_placement(r0, n, nf, mode)
        h0 = r0.choice([0, 0, 1000, 209990])          # also chains whose index does not reach down to height 0 (pruned / partial copy)
        d = layout.materialise(w.sub('dd'), blocks, pl, r0, fileno={f: f for f in range(nf)}, namer=lambda k: 'blk%05d.dat' % k, h0=h0)
        if j[0] % 2 == 0 and h0 == 0:
            # a node stopped during initial block download: block tip+1 known by header only, later blocks already stored
            # (one appended to each of several files) but not connectable - they belong to no chain and must not keep files open
            hole = datadir.mk_block(blocks[-1]['hash'], [btc.coinbase(n, btc.p2pkh(b'\x77' * 20))], t=1400000000, nonce=1)
            d.record(hole['hdr'], n, btc.VALID_TREE, 0)
            prev = hole['hash']
            for k in range(min(nf, 12)):
                ob = datadir.mk_block(prev, [btc.coinbase(n + 1 + k, btc.p2pkh(b'\x78' * 20))], t=1400000000 + k, nonce=k)
                fno = (k * 7) % nf
                with open(os.path.join(d.path, 'blk%05d.dat' % fno), 'ab') as f:
                    pos = f.tell()
                    f.write(struct.pack('<II', d.magic, len(ob['raw'])) + ob['raw'])
                d.record(ob['hdr'], n + 1 + k, btc.VALID_TREE | btc.HAVE_DATA, 1, fno, pos + 8)
                prev = ob['hash']
            d.core_extras()          # the per-file records know about the blocks just appended (nHeightLast beyond the active chain)
            import shutil
            shutil.rmtree(os.path.join(d.path, 'index'))
            from lib.ldb import write_leveldb
            write_leveldb(os.path.join(d.path, 'index'), sorted(d.kvs.items()))
        tr = w.sub('trace')
        r = layout.run_csv(w, d, 'bitcoin', s, e, trace=tr, h0=h0)
        peak = max([len(x['open']) for x in r.events if x['ev'] == 'fetched'] or [0])
        fds = max([x['fds'] for x in r.events if x['ev'] == 'fetched'] or [0])
        # descriptors that are not blk files (stdout, outputs, trace) are a constant: the real count must move with the open set
        other = sorted({x.get('blkfds', len(x['open'])) - len(x['open']) for x in r.events if x['ev'] == 'fetched'})
        return j, r, tr, peak, (fds, other)
    ran = chains.pmap(tjob, jobs, 6)
    verdicts = tracecheck.validate_many([x[2] for x in ran], batch=2)
    for (j, r, tr, peak, (fds, other)), v in zip(ran, verdicts):
        ck.evals()
        ck.traces()
        ck.distinct(('T',) + j[:5] + tuple(j[6:]))
        ck.sample({'blocks': j[0], 'files': j[1], 'mode': j[2], 'start': j[3], 'end': j[4], 'peak_open_files': peak, 'peak_fds': fds})
        probs = []
        if r.rc != 0:
            probs.append('exit status %d: %s' % (r.rc, r.stderr[-200:]))
        if not v['accepted']:
            probs.append('trace rejected: %s at event %s %s' % (v['reason'], v['rejected_at'], v['event'] or ''))
        if other != [0]:
            probs.append('the descriptors the process holds on blk files are not the open set of the bookkeeping: their number minus '
                         'the size of the open set ranges over %s during the run (peak %d descriptors in all)' % (other[:6], fds))
        if j[2] == 'disjoint' and peak > 1:
            probs.append('%d blk files open at once although the height spans of the files do not overlap' % peak)
        if probs:
            ck.violation('; '.join(probs), {'scenario': {'blocks': j[0], 'files': j[1], 'mode': j[2], 'start': j[3], 'end': j[4]},
                                            'observed': r.brief(), 'trace_verdict': v, 'tags': []})

    # black box: descriptor limit
    for nf in ([150] if quick else [150, 400, 1000]):
        rng = random.Random('%d-fd-%d' % (seed, nf))
        blocks = chains.std_chain(nf * 2)
        single = layout.materialise(w.sub('dd'), blocks, [(0, h) for h in range(len(blocks))], rng, pad=False,
                                    fileno={0: 0}, namer=lambda k: 'blk%05d.dat' % k)
        base = min_nofile(w, single, 'bitcoin')
        many = layout.materialise(w.sub('dd'), blocks, layout.random_placement(rng, len(blocks), nf, 'disjoint'), rng,
                                  fileno={f: f for f in range(nf)}, namer=lambda k: 'blk%05d.dat' % k)
        r = layout.run_csv(w, many, 'bitcoin', 0, None, nofile=base + 3)
        ck.evals()
        ck.distinct(('fd', nf))
        ck.sample({'files': nf, 'single_file_minimum_nofile': base, 'limit_used': base + 3, 'exit': r.rc})
        if r.rc != 0:
            ck.violation('run over %d disjoint blk files fails under RLIMIT_NOFILE=%d (single-file layout needs %d): %s'
                         % (nf, base + 3, base, r.stderr[-200:]),
                         {'scenario': {'files': nf, 'blocks': len(blocks), 'nofile': base + 3}, 'observed': r.brief(), 'tags': []})
        else:
            exp = layout.expected_csv(blocks, range(len(blocks)), 'bitcoin')
            probs = layout.compare_csv(r, exp, 0, len(blocks) - 1)
            if probs:
                ck.violation('; '.join(probs), {'scenario': {'files': nf}, 'observed': r.brief(), 'tags': []})
    ck.assumptions += ['"still holds a block yet to come" is read as: the selected chain has a block above the current height in '
                       'that file (weakest reading, so that no correct implementation is flagged)']
