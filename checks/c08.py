"""C08 - balances lists each address once with the sum of its unspent outputs (see c07.py: same model, same runs)."""
from checks import c07


def main(ck, tier, w):
    c07.main(ck, tier, w, pid='C08')
