"""C01 / C12 - csvdump reproduces every on-disk field exactly; AuxPoW sections are skipped exactly.

M: Wire.tla (TLC: every block shape of the universe - legacy/segwit, 1..2 inputs, 0..2 outputs, script and witness-item
   length classes on both sides of the CompactSize width boundary, AuxPoW sections with every parent-coinbase shape and
   branch lengths, header versions below/at/above the threshold, all coin classes): DecodeExact, CountsRight, RoundTrip,
   MarkerUnambiguous, AuxTransparent, NoAuxElsewhere, Misframed
T: every shape is concretised and decoded by the real BlockchainRead::read_block (driver read-block); the sequence of
   primitive reads must equal the one TLC derived, the stream must be consumed exactly, hash = sha256d(80-byte header),
   txid = sha256d(witness-stripped serialisation)
R: the well-formed shapes are chained into real data directories and run through csvdump (with and without --verify); the
   four files are compared byte for byte with the encoder-side rendering and the completion summary with the row counts;
   boundary sizes (0, 1, 0xfc, 0xfd, 0xffff, 0x10000), counts of 253 / 65536, hundreds of transactions, extreme field values
"""
import os
import random
import re
import struct

from lib import btc, chains, datadir, layout, ref, run, wirerep


def summary_totals(stdout):
    m = re.search(r'-> transactions:\s+(\d+)\n\s*-> inputs:\s+(\d+)\n\s*-> outputs:\s+(\d+)', stdout)
    return tuple(int(x) for x in m.groups()) if m else None


def verify_links_only(verify):
    return False


def run_chain(w, blocks, coin, verify, ck_label, r0=None):
    """dump a chain and compare with the reference; the other dimensions of a run vary too: several blk files in random
    physical order, XOR obfuscation, --start / --end"""
    r0 = r0 or random.Random(len(blocks))
    nfiles = r0.choice([1, 1, 3])
    if r0.random() < 0.35:
        # records whose length prefix covers the block plus some zero padding, the next record following exactly where the prefix says
        # (blocksize reports the prefix; decoding never depends on it)
        for b in blocks:
            if 'size' not in b and r0.random() < 0.5:
                b['size'], b['fill'] = len(b['raw']) + r0.choice([1, 16, 80, 300]), True
    d = datadir.DataDir(w.sub('dd'), coin)
    order = list(range(len(blocks)))
    if nfiles > 1:
        r0.shuffle(order)
    offs = {}
    for h in order:
        offs[h] = (h % nfiles, d.place(h % nfiles, blocks[h]['raw'], size=blocks[h].get('size'), fill=blocks[h].get('fill', False)))     # (a stored length prefix may be untruthful)
    for h, b in enumerate(blocks):
        hdr_copy = b['hdr']
        if ck_label == 'C12' and h % 2 == 0 and not verify_links_only(verify):
            # the copy of the header inside the index record is not what decides how the stored block is decoded: a copy whose version
            # field lies on the other side of the AuxPoW activation version (key, prev-hash and position stay right)
            v = struct.unpack('<I', hdr_copy[:4])[0]
            hdr_copy = struct.pack('<I', 1 if v >= 0x10101 else 0x620104) + hdr_copy[4:]
        d.record(hdr_copy, h, datadir.ACTIVE, len(b['txs']), offs[h][0], offs[h][1], key=b['hash'])
    d.core_extras()
    d.write(xor_key=r0.choice([None, None, r0.randbytes(8), r0.randbytes(5)]))
    first = r0.choice([1, 1, 2]) if verify else r0.choice([0, 0, 1])
    first = min(first, len(blocks) - 1)
    end = r0.choice([None, None, None, len(blocks) - 2]) if len(blocks) - 2 > first else None
    dump = w.mk('out')
    if r0.random() < 0.3:
        # leftovers of an interrupted longer run in the dump folder
        for nme in ('blocks', 'transactions', 'tx_in', 'tx_out'):
            with open(os.path.join(dump, nme + '.csv.tmp'), 'wb') as f:
                f.write(b'stale;row;of;an;earlier;run\n' * 200000)
    # the verbosity option must not influence the result either
    r = run.run_parser(d.path, 'csvdump', dump=dump, coin=coin, verify=verify, start=first or None, end=end, timeout=180,
                       verbose=r0.choice([0, 0, 1, 2]))
    lastb = len(blocks) - 1 if end is None else end
    chain = [(h, b) for h, b in enumerate(blocks) if first <= h <= lastb]
    exp, tot = ref.csv_expected(chain, coin)
    probs = []
    if r.rc != 0:
        probs.append('exit status %d: %s' % (r.rc, r.stderr[-300:]))
    else:
        probs += layout.compare_csv(r, exp, first, lastb)
        st = summary_totals(r.stdout)
        if st != tot:
            probs.append('completion summary says %s transactions/inputs/outputs, rows written are %s' % (st, tot))
    if probs:
        probs.append('(files=%d start=%s end=%s)' % (nfiles, first, end))
    return probs, r


def main(ck, tier, w, pid='C01'):
    quick = tier == 'quick'
    seed = run.seed()
    cfg = 'MC_Wire_q' if quick else 'MC_Wire_t'
    res = run.tlc('MC_Wire', cfg, workers=8, timeout=1500, heap='16g', coverage=False)   # (coverage instrumentation explodes on the universe sets)
    ck.add_tlc(res, cfg)
    universe = res.replay
    if pid == 'C12':
        universe = [u for u in universe if u['block']['aux']['b1'] >= 0 or u['block']['ver'] > 0 or u['coin'] in wirerep.THRESH]
    ck.cov['shapes_in_universe'] = len(universe)
    ck.cov['exhaustive'] = True
    ck.cov['rule'] = ('every block shape of the TLC universe decoded by the real decoder (reads compared) and, when well-formed, dumped by '
                      'csvdump and compared byte for byte; non-trivial = shape with a segwit transaction, a 3-byte CompactSize or an AuxPoW section')
    rng = random.Random('%d-%s' % (seed, pid))

    # ---- T: the real decoder's primitive reads against the specification's
    conc = []
    ck.cov['misframed_shapes_checked_in_model_only'] = sum(1 for u in universe if not u['wf'])
    classes = {'bitcoin': ['bitcoin', 'testnet3'], 'litecoin': ['litecoin', 'myriadcoin', 'unobtanium', 'noteblockchain'],
               'namecoin': ['namecoin'], 'dogecoin': ['dogecoin']}
    for u in universe:
        if u['wf']:          # misframed streams are not valid chain data: only the specification is consulted (Misframed)
            # the model's coin stands for its class: every real coin of the class is exercised (negative control of C12 on all six)
            for coin in classes[u['coin']]:
                if coin == u['coin'] or u['block']['ver'] > 0 or rng.random() < 0.15:
                    uu = dict(u, coin=coin)
                    conc.append((uu, wirerep.mk_block(uu, rng)))
    lines = ['%s %d %s' % (u['coin'], len(b['raw']), b['raw'].hex()) for u, b in conc]
    outs = []
    for k in range(0, len(lines), 2000):
        rc, o, err = run.run_driver('read-block', lines[k:k + 2000])
        outs += o
    if len(outs) != len(conc):
        raise run.ToolError('read-block answered %d of %d' % (len(outs), len(conc)))
    nv = 0
    for (u, b), got in zip(conc, outs):
        ck.evals()
        ck.traces()
        blk = u['block']
        if any(t['seg'] for t in blk['txs']) or blk['aux']['b1'] >= 0 or 'm' in str(blk):
            ck.distinct(str(u))
        if not u['wf']:
            continue          # misframed streams: only the specification is consulted (Misframed)
        p = None
        if not isinstance(got, dict) or 'panic' in got or not got.get('ok'):
            p = 'decoder failed on a well-formed block: %s' % (got,)
        elif got['end'] != len(b['raw']):
            p = 'decoder consumed %d of %d bytes' % (got['end'], len(b['raw']))
        elif [x[1] for x in got['reads']] != u['reads']:
            k = next((i for i in range(min(len(got['reads']), len(u['reads']))) if got['reads'][i][1] != u['reads'][i]), min(len(got['reads']), len(u['reads'])))
            p = 'primitive read %d: decoder reads %s bytes, specification says %s (reads %s... vs %s...)' % (
                k, got['reads'][k][1] if k < len(got['reads']) else None, u['reads'][k] if k < len(u['reads']) else None,
                [x[1] for x in got['reads']][max(0, k - 3):k + 3], u['reads'][max(0, k - 3):k + 3])
        elif got['hash'] != btc.hexrev(b['hash']):
            p = 'block hash %s is not the double SHA-256 of the 80-byte header (%s)' % (got['hash'], btc.hexrev(b['hash']))
        elif got['aux'] != (blk['aux']['b1'] >= 0):
            p = 'AuxPoW section %s although the block %s one' % ('read' if got['aux'] else 'not read', 'has' if blk['aux']['b1'] >= 0 else 'lacks')
        elif [(t['txid'], t['nin'], t['nout']) for t in got['txs']] != [(btc.hexrev(btc.txid(t)), len(t['ins']), len(t['outs'])) for t in b['txs']]:
            p = 'decoded transactions differ: %s vs txids of the witness-stripped serialisation %s' % (
                [(t['txid'][:12], t['nin'], t['nout']) for t in got['txs']], [(btc.hexrev(btc.txid(t))[:12], len(t['ins']), len(t['outs'])) for t in b['txs']])
        if p and nv < 30:
            nv += 1
            ck.violation('%s: %s' % (u['coin'], p), {'shape': u, 'block_hex': b['raw'].hex()[:3000], 'observed': str(got)[:1500], 'tags': []})
    for u, b in conc[:: max(1, len(conc) // 4)]:
        ck.sample({'coin': u['coin'], 'shape': u['block'], 'specification_reads': u['reads'][:40]})

    # ---- R: csvdump over chains built from the well-formed shapes
    wf = [u for u in universe if u['wf']]
    by_coin = {}
    for u in wf:
        by_coin.setdefault(u['coin'], []).append(u)
    allcoins = {'bitcoin': ['bitcoin', 'testnet3'], 'litecoin': ['litecoin', 'myriadcoin', 'unobtanium', 'noteblockchain'],
                'namecoin': ['namecoin'], 'dogecoin': ['dogecoin']}
    jobs = []
    for cls, us in by_coin.items():
        rng.shuffle(us)
        us = us[:400 if quick else 6000]
        for k in range(0, len(us), 40):
            jobs.append((cls, us[k:k + 40], len(jobs)))

    def one(j):
        cls, us, n = j
        r0 = random.Random('%d-%s-chain-%d' % (seed, pid, n))
        coin = r0.choice(allcoins[cls])
        blocks, prev = [], b'\0' * 32
        for h, u in enumerate([us[0]] + us):
            b = wirerep.mk_block(dict(u, coin=coin), r0, prev=prev, t=r0.randrange(1, 2 ** 32), sizes=wirerep.CHAIN_SIZES[(n + h) % 3])
            blocks.append(b)
            prev = b['hash']
        verify = n % 2 == 1
        probs, r = run_chain(w, blocks, coin, verify, pid, r0)
        return j, coin, verify, probs, r
    for j, coin, verify, probs, r in chains.pmap(one, jobs):
        ck.evals(len(j[1]))
        ck.traces()
        if probs:
            ck.violation('%s csvdump (verify=%s) over %d shapes: %s' % (coin, verify, len(j[1]), '; '.join(probs[:3])),
                         {'coin': coin, 'verify': verify, 'shapes': [u['block'] for u in j[1]][:10], 'observed': r.brief(), 'tags': []})

    if pid == 'C01':
        boundary(ck, w, seed, quick)
        # chains indexed around heights at which consensus rules or historical accidents sit: nothing in csvdump depends on a height
        from lib import extremes as xt
        hs = xt.SPECIAL_HEIGHTS if not quick else [h for k, h in enumerate(xt.SPECIAL_HEIGHTS) if (k + seed) % 2 == 0 or h in (91842, 91880)]

        def sp(h):
            coin = ['bitcoin', 'litecoin', 'namecoin', 'dogecoin', 'testnet3'][h % 5]
            sb = xt.special_height_chain(h, coin, seed)
            sd = datadir.simple_dir(w.sub('dd'), sb, coin, h0=h - 1).write()
            r = run.run_parser(sd, 'csvdump', dump=w.mk('out'), coin=coin, start=h - 1)
            exp, tot = ref.csv_expected([(h - 1 + k, b) for k, b in enumerate(sb)], coin)
            bad = [f for f in exp if r.files.get('%s-%d-%d.csv' % (f, h - 1, h + 1)) != exp[f]]
            if not bad and r.rc == 0 and summary_totals(r.stdout) != tuple(tot):
                bad = ['printed totals %s, rows written %s' % (summary_totals(r.stdout), tuple(tot))]
            return h, coin, r, bad
        for h, coin, r, bad in chains.pmap(sp, hs, 8):
            ck.evals()
            ck.distinct(('special-height', h, coin))
            if r.rc != 0 or bad:
                ck.violation('%s chain indexed at heights %d..%d: exit %d, differing from the reference: %s' % (coin, h - 1, h + 1, r.rc, bad),
                             {'coin': coin, 'heights': [h - 1, h, h + 1], 'observed': r.brief(), 'tags': []})
        # totals beyond 32 bits: a full dump of a real chain writes billions of rows; the counters are started there (hook) and must
        # end at start + rows written, in both build profiles
        pb = chains.std_chain(4, 'bitcoin')
        pdir = datadir.simple_dir(w.sub('dd'), pb, 'bitcoin').write()
        _, ptot = ref.csv_expected(list(enumerate(pb)), 'bitcoin')
        for preset in (2 ** 32 - 2, 2 ** 32, 2 ** 40 + 7, 2 ** 63):
            for rel in (False, True):
                r = run.run_parser(pdir, 'csvdump', dump=w.mk('out'), env={'RBP_VERIF_PRESET_COUNT': str(preset)}, release=rel)
                want = tuple(preset + x for x in ptot)
                ck.evals()
                ck.distinct(('preset', preset, rel))
                if r.rc != 0 or summary_totals(r.stdout) != want:
                    ck.violation('csvdump whose row counters start at %d (%s build): exit %d, printed totals %s, rows written so far %s' % (
                        preset, 'release' if rel else 'debug', r.rc, summary_totals(r.stdout), want), {'preset': preset, 'observed': r.brief(), 'tags': []})
        # counts and sizes beyond 16 bits: 66 000 transactions in a block, 65 600 inputs / outputs / witness items, 66 000-byte scripts
        from lib import extremes
        for coin in (['bitcoin', 'litecoin'] if quick else list(btc.COINS)):
            xb = extremes.wide_chain('%d-%s' % (seed, coin), coin)
            xd = datadir.simple_dir(w.sub('dd'), xb, coin).write()
            for s_, e_ in ((None, None), (2, 3)) if coin == 'bitcoin' else ((1, None),):
                r = run.run_parser(xd, 'csvdump', dump=w.mk('out'), coin=coin, start=s_, end=e_, timeout=600)
                lo, hi = s_ or 0, 3 if e_ is None else e_
                exp, tot = ref.csv_expected(list(enumerate(xb))[lo:hi + 1], coin)
                ck.evals()
                ck.distinct(('wide', coin, s_, e_))
                bad = [f for f in exp if r.files.get('%s-%d-%d.csv' % (f, lo, hi)) != exp[f]]
                if not bad and r.rc == 0 and summary_totals(r.stdout) != tuple(tot):
                    bad = ['printed totals %s, rows written %s' % (summary_totals(r.stdout), tuple(tot))]
                if r.rc != 0 or bad:
                    ck.violation('%s csvdump of the wide chain (66 000 transactions in a block, 65 600 inputs/outputs/witness items), range %s..%s: exit %d, '
                                 'files differing from the reference: %s' % (coin, lo, hi, r.rc, bad),
                                 {'coin': coin, 'start': s_, 'end': e_, 'observed': r.brief(), 'tags': []})
    else:
        aux_extras(ck, w, seed, quick)
    ck.assumptions += ['well-formed chains: canonical CompactSize, legacy transactions have >= 1 input',
                       'address column: reference classifier of lib/ref.py (validated against Script.tla by C05/C06)']


def boundary(ck, w, seed, quick):
    """sizes and counts on both sides of every CompactSize boundary, many transactions, extreme values"""
    sizesets = [{'z': 0, 's': 1, 'm': 0xfd, 'l': 0x10000}, {'z': 0, 's': 0xfc, 'm': 0xffff, 'l': 0x10001}, {'z': 0, 's': 75, 'm': 300, 'l': 70000}]
    jobs = []
    for i in range(6 if quick else 60):
        jobs.append(('sizes', i))
    for i in range(4 if quick else 24):
        jobs.append(('counts', i))
    jobs.append(('manytx', 0))
    if not quick:
        jobs += [('huge', 0), ('manytx', 1)]

    def one(j):
        kind, i = j
        r0 = random.Random('%d-bnd-%s-%d' % (seed, kind, i))
        coin = r0.choice(list(btc.COINS))
        blocks, prev = [], b'\0' * 32
        for h in range(4):
            txs = []
            if kind == 'sizes':
                sz = sizesets[i % 3]
                for k in range(r0.randrange(1, 5)):
                    seg = r0.random() < 0.5
                    nin = r0.randrange(1, 4)
                    shape = {'seg': seg, 'ins': [r0.choice('zsml' if k == 0 and h == 1 else 'zsm') for _ in range(nin)],
                             'outs': [r0.choice('zsm') for _ in range(r0.randrange(0, 4))],
                             'wit': [[r0.choice('zsml' if h == 2 and k == 0 else 'zsm') for _ in range(r0.randrange(0, 3))] for _ in range(nin)]}
                    txs.append(wirerep.mk_tx(shape, r0, sz, idx=k))
            elif kind == 'counts':
                n1, n2 = [(0xfc, 0xfd), (0xfd, 0xfc), (253, 300), (1, 0xfd), (1, 513), (600, 2000), (1025, 1), (2, 4097)][(i + h) % 8]
                txs.append(wirerep.mk_tx({'seg': h % 2 == 1, 'ins': ['z'] * n1, 'outs': ['s'] * n2, 'wit': [['s'] * (253 if k == 0 else 1) for k in range(n1)]}, r0))
                txs.append(wirerep.mk_tx({'seg': False, 'ins': ['s'], 'outs': [], 'wit': []}, r0))
            elif kind == 'manytx':
                n = r0.choice([252, 253, 254, 300]) if h == 1 else r0.choice([1, 2, 17])
                txs = [wirerep.mk_tx({'seg': k % 3 == 0, 'ins': ['s'], 'outs': ['s'] * (k % 3), 'wit': [['s']]}, r0, idx=k) for k in range(n)]
            else:
                txs.append(wirerep.mk_tx({'seg': False, 'ins': ['z'] * (0x10000 if h == 1 else 2), 'outs': ['z'] * (0x10000 if h == 2 else 1), 'wit': []}, r0))
            b = datadir.mk_block(prev, txs, t=r0.randrange(1, 2 ** 32), ver=r0.choice([1, 2, 4]), nonce=r0.randrange(2 ** 32), bits=r0.randrange(2 ** 32))
            blocks.append(b)
            prev = b['hash']
        probs, r = run_chain(w, blocks, coin, i % 2 == 0, 'C01', r0)
        return j, coin, probs, r
    for j, coin, probs, r in chains.pmap(one, jobs, 8):
        ck.evals()
        ck.distinct(('boundary',) + j)
        if probs:
            ck.violation('%s boundary chain %s: %s' % (coin, j, '; '.join(probs[:3])), {'coin': coin, 'case': j, 'observed': r.brief(), 'tags': []})


def aux_extras(ck, w, seed, quick):
    """branch lengths up to 253, every parent coinbase shape, versions mixed within one chain, negative control on other coins"""
    jobs = [(coin, i) for coin in ('namecoin', 'dogecoin', 'litecoin', 'bitcoin', 'myriadcoin') for i in range(2 if quick else 12)]

    def one(j):
        coin, i = j
        r0 = random.Random('%d-aux-%s-%d' % (seed, coin, i))
        blocks, prev = [], b'\0' * 32
        for h in range(6):
            vcls = r0.choice([0, 1, 2])
            has = coin in wirerep.THRESH and vcls >= 1
            aux = {'cb': {'seg': r0.random() < 0.5, 'ins': ['s'], 'outs': ['s'] * r0.randrange(0, 3), 'wit': [['s'] * r0.randrange(0, 3)]},
                   'b1': [253, 0, 1, 32, 33, 2][h] if i % 2 == 0 else r0.choice([0, 1, 2, 32, 33, 253]),
                   'b2': [1, 300, 0, 33, 2, 32][h] if i % 2 == 0 else r0.choice([0, 1, 2, 32, 33])} if has else {'cb': [], 'b1': -1, 'b2': -1}
            rec = {'coin': coin, 'block': {'ver': vcls, 'aux': aux, 'txs': [{'seg': k % 2 == 1, 'ins': ['s'], 'outs': ['s', 's'], 'wit': [['s']]} for k in range(r0.randrange(1, 4))]}}
            b = wirerep.mk_block(rec, r0, prev=prev, t=r0.randrange(1, 2 ** 32), sizes=wirerep.CHAIN_SIZES[(i + h) % 3])
            if i % 2 == 0 and h % 2 == 1:
                # grossly understated / overstated length prefixes: the prefix is reported, the block is decoded structurally -
                # with or without an AuxPoW section, however long its branches
                b['size'] = [100, 81, 5000000, 33][h // 2 % 4]
            blocks.append(b)
            prev = b['hash']
        probs, r = run_chain(w, blocks, coin, True, 'C12', r0)
        return j, probs, r
    for j, probs, r in chains.pmap(one, jobs, 8):
        ck.evals()
        ck.distinct(('auxchain',) + j)
        if probs:
            ck.violation('%s AuxPoW chain %d: %s' % (j[0], j[1], '; '.join(probs[:3])), {'coin': j[0], 'observed': r.brief(), 'tags': []})

    # a block cut short inside its AuxPoW section is unreadable - the section is consumed exactly or the block is not decoded at
    # all (there is no second, section-less reading of the same bytes)
    for coin in ('namecoin', 'dogecoin'):
        r0 = random.Random('%d-auxcut-%s' % (seed, coin))
        blocks, prev = [], b'\0' * 32
        for h in range(3):
            aux = {'cb': {'seg': h == 1, 'ins': ['s'], 'outs': ['s'], 'wit': [['s']]}, 'b1': 3, 'b2': 2}
            rec = {'coin': coin, 'block': {'ver': 1, 'aux': aux, 'txs': [{'seg': False, 'ins': ['s'], 'outs': ['s'], 'wit': [[]]}]}}
            b = wirerep.mk_block(rec, r0, prev=prev, t=1400000000 + h, sizes=wirerep.CHAIN_SIZES[0])
            blocks.append(b)
            prev = b['hash']
        d = datadir.simple_dir(w.sub('dd'), blocks, coin).write(plain=True)
        total = os.path.getsize(os.path.join(d, 'blk00000.dat'))
        last = len(blocks[-1]['raw'])
        for cut in (80 + 13, 80 + 30, 80 + 100, last - len(btc.ser_tx(blocks[-1]['txs'][0])) - 1 - 40):
            import shutil
            dd = w.sub('cl')
            shutil.copytree(d, dd)
            with open(os.path.join(dd, 'blk00000.dat'), 'r+b') as f:
                f.truncate(total - last + cut)
            for cb in ('csvdump', 'simplestats'):
                r = run.run_parser(dd, cb, dump=w.mk('out') if cb == 'csvdump' else None, coin=coin)
                ck.evals()
                ck.distinct(('auxcut', coin, cut, cb))
                finals = [f for f in r.listing if not f.endswith('.tmp')]
                if r.rc == 0 or finals:
                    ck.violation('%s: blk file ends %d bytes into the last block (inside its AuxPoW section), %s exits %d and leaves %s' % (coin, cut, cb, r.rc, finals),
                                 {'coin': coin, 'cut': cut, 'observed': r.brief(), 'tags': []})

    # which coin is parsed is decided by -c alone (bitcoin when it is absent), not by what the path of the data directory looks
    # like: a bitcoin chain with BIP9 header versions (far above the AuxPoW activation versions) under paths that end like the
    # default folders of the AuxPoW coins, -c omitted
    r0 = random.Random('%d-defaultfolder' % seed)
    vb, prev = [], b'\0' * 32
    for h in range(4):
        vb.append(datadir.mk_block(prev, chains.std_txs(h, 'bitcoin'), t=1500000000 + h, ver=[1, 0x20000000, 0x3fffe000, 0x00620104][h], nonce=h))
        prev = vb[-1]['hash']
    exp, _ = ref.csv_expected(list(enumerate(vb)), 'bitcoin')
    for tail in ('.dogecoin/blocks', '.namecoin', '.litecoin/blocks', '.bitcoin/blocks'):
        base = w.mk('home')
        d = datadir.simple_dir(os.path.join(base, tail), vb, 'bitcoin').write(plain=True)
        r = run.run_parser(d, 'csvdump', dump=w.mk('out'), coin=None)
        ck.evals()
        ck.distinct(('defaultfolder', tail))
        bad = [f for f in exp if r.files.get('%s-0-3.csv' % f) != exp[f]]
        if r.rc != 0 or bad:
            ck.violation('bitcoin chain (header versions 1, 0x20000000, 0x3fffe000, 0x620104) under a directory ending in %s, no -c: exit %d, files differing from the reference: %s; %s'
                         % (tail, r.rc, bad, r.stderr[-200:]), {'path_tail': tail, 'observed': r.brief(), 'tags': []})

