"""C02 - exactly the heights start..min(end,tip) are delivered, once, ascending; names carry start and last.

M: MC_Range (TLC, exhaustive over chain length x accepted ranges x callbacks x two key orders)
R: every terminal state of the model is concretised into a real chain and run through the binary
T: long random chains/ranges, execution traces validated against BlockParser.tla (Trace_Run)
"""
import os
import random
import re
import struct

from lib import btc, chains, datadir, ref, run, tracecheck

FILECB = {'csvdump': ['blocks', 'transactions', 'tx_in', 'tx_out'], 'unspentcsvdump': ['unspent'], 'balances': ['balances']}


def genesis_rooted_chain(n, coin, order):
    """block 0 is the coin's real genesis block (so that --verify can be on), the rest standard blocks"""
    ghdr, gtxs = btc.genesis_block(coin)
    g = {'hdr': ghdr, 'hash': btc.sha256d(ghdr), 'txs': gtxs, 'raw': btc.ser_block(ghdr, gtxs)}
    rest = chains.std_chain(n - 1, coin, order=order, h0=1, prev=g['hash']) if n > 1 else []
    return [g] + rest


def replay_one(w, obs, coin='bitcoin', h0=0):
    """obs: REPLAY record of MC_Range -> list of problems; every callback's complete output is compared with the reference
    rendering of exactly the expected heights"""
    T, s, e, cb = obs['T'], obs['start'], obs['end'], obs['cb']
    blocks = genesis_rooted_chain(T + 1, coin, 'desc' if obs['rev'] else 'asc')
    d = datadir.DataDir(w.sub('dd'), coin)
    for h, b in enumerate(blocks):
        off = d.place(h // 2, b['raw'])
        d.record(b['hdr'], h, datadir.ACTIVE, len(b['txs']), h // 2, off)
    d.core_extras()
    d.write()
    dump = w.mk('out') if cb in FILECB else None
    if dump and (T + s) % 2 == 0:
        # leftovers of an interrupted longer run: blocks outside the range must not contribute through them either
        junk = b''.join(ref.csv_rows(b, 90 + k, coin)['blocks'] for k, b in enumerate(blocks)) * 8
        for n in FILECB[cb]:
            with open(os.path.join(dump, n + '.csv.tmp'), 'wb') as f:
                f.write(junk)
    r = run.run_parser(d.path, cb, dump=dump, coin=coin, start=s if s else None, end=None if e == -1 else e, verify=obs.get('verify', False))
    exp_h = obs['heights']
    chain = [(h, blocks[h]) for h in exp_h]
    probs = []
    if r.rc != obs['exit']:
        probs.append('exit status %s, specification says %s: %s' % (r.rc, obs['exit'], r.stderr[-200:]))
        return probs, r
    last = chains.processed_upto(r.stdout)
    if exp_h and last != exp_h[-1]:
        probs.append('"Processed blocks up to height" says %s, expected %s' % (last, exp_h[-1]))
    if cb in FILECB:
        names = sorted('%s-%d-%d.csv' % (f['f'], f['s'], f['l']) for f in obs['finals'])
        if r.listing != names:
            probs.append('dump folder holds %s, specification says %s' % (r.listing, names))
            return probs, r
    if cb == 'csvdump':
        # also the slice property: the range output is the corresponding slice of the whole-chain rows
        exp, _ = ref.csv_expected(chain, coin)
        for f in FILECB['csvdump']:
            name = '%s-%d-%d.csv' % (f, s, exp_h[-1])
            if r.files.get(name) != exp[f]:
                got = chains.csv_col(r.files.get(name, b''), 1) if f == 'blocks' else ''
                probs.append('%s differs from the rows of heights %d..%d %s' % (name, s, exp_h[-1], got))
    elif cb == 'unspentcsvdump':
        rows = set(r.files['unspent-%d-%d.csv' % (s, exp_h[-1])].decode('utf-8', 'replace').splitlines()[1:])
        if rows != ref.unspent_rows(ref.utxo_expected(chain, coin)):
            probs.append('unspent rows are not those of heights %s (row heights %s)' % (exp_h, sorted({x.split(';')[2] for x in rows})))
    elif cb == 'balances':
        rows = set(r.files['balances-%d-%d.csv' % (s, exp_h[-1])].decode('utf-8', 'replace').splitlines()[1:])
        if rows != ref.balances_rows(ref.utxo_expected(chain, coin)):
            probs.append('balances rows are not those of heights %s' % exp_h)
    elif cb == 'opreturn':
        exp = b''.join(x for x in ref.opreturn_expected(chain, coin))
        if chains.strip_log(r.out) != exp:
            probs.append('opreturn lines are not those of heights %s: %r' % (exp_h, chains.strip_log(r.out)[:300]))
    else:
        st = chains.parse_stats(r.stdout)
        est = ref.stats_expected(chain, coin)
        if (st.get('blocks'), st.get('txs'), st.get('volume')) != (est['blocks'], est['txs'], est['volume']):
            probs.append('simplestats saw %s blocks / %s txs / volume %s, expected %s / %s / %s' % (
                st.get('blocks'), st.get('txs'), st.get('volume'), est['blocks'], est['txs'], est['volume']))
    return probs, r


def traced_run(w, rng, n, cb, s, e, nfiles=3, coin='bitcoin', h0=0, stall=None, equal=False):
    if equal:
        # blocks of identical size, appended without padding to files that do not fill in lock step: block h+1 often starts in
        # another file at exactly the offset where block h ended in its own
        blocks = datadir.linear_chain(n, txs_fn=lambda h: [btc.coinbase(h, btc.p2pkh(h.to_bytes(4, 'big') * 5))])
    else:
        blocks = chains.std_chain(n, coin, h0=h0)
    if equal:
        from lib import layout
        d = layout.materialise(w.sub('dd'), blocks, layout.random_placement(rng, n, nfiles, 'random'), rng, coin=coin, pad=False,
                               fileno={f: f for f in range(nfiles)}, namer=lambda k: 'blk%05d.dat' % k)
    else:
        d = datadir.DataDir(w.sub('dd'), coin)
        for i, b in enumerate(blocks):
            fno = rng.randrange(nfiles)
            off = d.place(fno, b['raw'])
            d.record(b['hdr'], h0 + i, datadir.ACTIVE, len(b['txs']), fno, off)
        d.core_extras()
        d.write()
    tr = w.sub('trace')
    dump = w.mk('out') if cb in FILECB else None
    r = run.run_parser(d.path, cb, dump=dump, coin=coin, start=s if s else None, end=e, trace=tr, skip='spend,create,eval,dump_row,bal_row',
                       env={'RBP_VERIF_STALL': stall} if stall else None, timeout=240)
    return tr, r


def main(ck, tier, w):
    quick = tier == 'quick'
    res = run_tlc(ck, 'MC_Range_q' if quick else 'MC_Range_t')
    ck.require_actions(res, ['Start', 'ScanRecord', 'SelectChain', 'Lookup', 'Open', 'SeekRead', 'CloseIfLast', 'Deliver',
                             'ProduceSummary', 'FlushSome', 'RenameSome', 'FinishDone', 'ExitOk'], 'MC_Range')
    ck.cov['exhaustive'] = True
    ck.cov['rule'] = ('TLC enumerates every linear chain 0..T (T<=%d), every accepted (--start,--end), 5 callbacks, 2 index key '
                      'orders; each terminal state is replayed on a real data directory. Non-trivial = distinct '
                      '(T,start,end,callback) with a proper sub-range or an end at/above the tip.' % (3 if quick else 5))

    def one(obs):
        probs, r = replay_one(w, obs)
        return obs, probs, r
    for obs, probs, r in chains.pmap(one, res.replay):
        ck.evals()
        ck.traces()
        if obs['start'] > 0 or obs['end'] != -1:
            ck.distinct((obs['T'], obs['start'], obs['end'], obs['cb']))
        ck.sample({'scenario': {k: obs[k] for k in ('T', 'start', 'end', 'cb', 'rev', 'verify')}, 'expected_heights': obs['heights']})
        if probs:
            tags = []
            ck.violation('; '.join(probs), {'scenario': obs, 'observed': r.brief(), 'tags': tags,
                                            'how': 'linear chain of T+1 blocks (lib/chains.std_chain), 2 blocks per blk file'})
    # --- numeric extremes of --start / --end (u64 options): an end beyond the tip, however large, is the tip; a start beyond the
    # tip, however large, is an empty range (the model covers tip+1 and tip+2; these must behave like them)
    xblocks = genesis_rooted_chain(4, 'bitcoin', 'asc')
    xd = datadir.simple_dir(w.sub('dd'), xblocks, 'bitcoin').write()
    for cb in ('csvdump', 'unspentcsvdump', 'balances', 'simplestats', 'opreturn'):
        def xrun(s_, e_):
            r = run.run_parser(xd, cb, dump=w.mk('out') if cb in FILECB else None, start=s_, end=e_, verify=cb == 'csvdump')
            body = sorted(tuple(sorted(v.splitlines())) for v in r.files.values()) if cb in FILECB else (chains.strip_log(r.out) if cb == 'opreturn' else
                                                                 {k: v for k, v in chains.parse_stats(r.stdout).items()})
            return r, body
        whole, wbody = xrun(None, None)
        for e_ in (4, 2 ** 16, 2 ** 32 - 1, 2 ** 32, 2 ** 63, 2 ** 64 - 1):
            r, body = xrun(1 if e_ % 2 else None, e_)
            ref_r, ref_body = xrun(1, None) if e_ % 2 else (whole, wbody)
            ck.evals()
            ck.distinct(('xend', cb, e_))
            if r.rc != 0 or body != ref_body or (cb in FILECB and r.listing != ref_r.listing):
                ck.violation('%s --end %d (chain tip 3): exit %d, result differs from the run without --end (%s vs %s)' % (cb, e_, r.rc, r.listing, ref_r.listing),
                             {'end': e_, 'callback': cb, 'observed': r.brief(), 'tags': []})
        empty, ebody = xrun(4, None)
        for s_ in (5, 2 ** 16, 2 ** 32, 2 ** 63, 2 ** 64 - 1):
            r, body = xrun(s_, None)
            ck.evals()
            ck.distinct(('xstart', cb, s_))
            if r.rc != empty.rc or body != ebody:
                ck.violation('%s --start %d (chain tip 3): exit %d and content differ from --start 4 (exit %d), both ranges are empty' % (cb, s_, r.rc, empty.rc),
                             {'start': s_, 'callback': cb, 'observed': r.brief(), 'tags': []})

    # --- more than 2^16 blocks (heights, record counts and positions are 32/64-bit quantities)
    NL = 132000         # (more than 2^17 blocks delivered in one run, one of the runs with --verify)
    lspk = btc.p2pkh(b'\x09' * 20)
    lblocks = datadir.linear_chain(NL, txs_fn=lambda h: [btc.coinbase(h, lspk if h % 500 else btc.p2pkh(h.to_bytes(4, 'big') * 5))])
    ld = datadir.simple_dir(w.sub('dd'), lblocks, 'bitcoin').write()

    def lrun(c):
        cb, s_, e_ = c
        import shutil
        cl = w.sub('cl')
        shutil.copytree(ld, cl)       # LevelDB locks the index: one copy per concurrent run
        return c, run.run_parser(cl, cb, verify=(cb == 'simplestats'), dump=w.mk('out') if cb in FILECB else None, start=s_, end=e_, timeout=900)
    for (cb, s_, e_), r in chains.pmap(lrun, [('csvdump', 131060, None), ('csvdump', 65534, 65538), ('simplestats', 1, None), ('unspentcsvdump', None, None),
                                               ('balances', 32767, 65537)], 5):
        ck.evals()
        ck.distinct(('long', cb, s_, e_))
        lo, hi = s_ or 0, NL - 1 if e_ is None else e_
        probs = []
        if r.rc != 0:
            probs.append('exit %d: %s' % (r.rc, r.stderr[-200:]))
        else:
            if chains.processed_upto(r.stdout) != hi:
                probs.append('"Processed blocks up to height" says %s, expected %d' % (chains.processed_upto(r.stdout), hi))
            chain = [(h, lblocks[h]) for h in range(lo, hi + 1)]
            if cb == 'csvdump':
                exp, _ = ref.csv_expected(chain, 'bitcoin')
                probs += ['%s-%d-%d.csv differs from the rows of heights %d..%d (dump folder %s)' % (f, lo, hi, lo, hi, r.listing)
                          for f in exp if r.files.get('%s-%d-%d.csv' % (f, lo, hi)) != exp[f]]
            elif cb == 'simplestats':
                st = chains.parse_stats(r.stdout)
                if (st.get('blocks'), st.get('txs')) != (hi - lo + 1, hi - lo + 1):
                    probs.append('simplestats counted %s blocks / %s transactions, expected %d' % (st.get('blocks'), st.get('txs'), hi - lo + 1))
            else:
                pre = 'unspent' if cb == 'unspentcsvdump' else 'balances'
                rows = set(r.files.get('%s-%d-%d.csv' % (pre, lo, hi), b'').decode('utf-8', 'replace').splitlines()[1:])
                want = ref.unspent_rows(ref.utxo_expected(chain, 'bitcoin')) if cb == 'unspentcsvdump' else ref.balances_rows(ref.utxo_expected(chain, 'bitcoin'))
                if rows != want:
                    probs.append('%s rows differ from the reference over heights %d..%d (%d vs %d rows; dump folder %s)' % (cb, lo, hi, len(rows), len(want), r.listing))
        if probs:
            ck.violation('chain of %d blocks, %s --start %s --end %s: %s' % (NL, cb, s_, e_, '; '.join(probs[:3])),
                         {'blocks': NL, 'callback': cb, 'start': s_, 'end': e_, 'observed': r.brief(), 'tags': []})

    # --- heights beyond 32 bits (a sparse index: only the records around H exist); no trace here, TLC's integers are 32-bit
    for H in (2 ** 32 - 3, 2 ** 32, 2 ** 40 + 7, 2 ** 63):
        hb = chains.std_chain(6, 'bitcoin')          # (block content independent of the heights they are indexed at)
        hd = datadir.simple_dir(w.sub('dd'), hb, 'bitcoin', h0=H).write()
        for s_, e_ in ((H, None), (H + 1, H + 3), (H + 2, H + 100)):
            r = run.run_parser(hd, 'csvdump', dump=w.mk('out'), start=s_, end=e_)
            lo, hi = s_, min(e_ if e_ is not None else H + 5, H + 5)
            exp, _ = ref.csv_expected([(h, hb[h - H]) for h in range(lo, hi + 1)], 'bitcoin')
            ck.evals()
            ck.distinct(('high', H, s_ - H, e_))
            bad = [f for f in exp if r.files.get('%s-%d-%d.csv' % (f, lo, hi)) != exp[f]]
            if r.rc != 0 or bad or chains.processed_upto(r.stdout) != hi:
                ck.violation('index with heights %d..%d, csvdump --start %d --end %s: exit %d, dump folder %s, "processed up to" %s; files differing from the rows of '
                             '%d..%d: %s' % (H, H + 5, s_, e_, r.rc, r.listing, chains.processed_upto(r.stdout), lo, hi, bad),
                             {'first_height': H, 'start': s_, 'end': e_, 'observed': r.brief(), 'tags': []})

    # --- index keys shaped like proof-of-work hashes (many leading zero bytes as displayed = trailing zero bytes as stored), which
    # hashes of generated headers never are.  The keys and the header copies inside the records are made up here (each record's
    # prev field names the key of the height below), the blk file holds ordinary blocks: without --verify only the index decides
    # which block is read for a height.  Above the tip: a header-only record and a stored block on top of it.
    for nz, variant in ((8, 0), (9, 1), (12, 2)):
        pr = random.Random('%d-pow-%d' % (run.seed(), nz))
        pblocks = chains.std_chain(12, 'bitcoin')
        keys = [pr.randbytes(32 - (nz if h >= 6 or variant == 2 else 4)) + b'\0' * (nz if h >= 6 or variant == 2 else 4) for h in range(12)]
        pd_ = datadir.DataDir(w.sub('dd'), 'bitcoin')
        for h, b in enumerate(pblocks):
            fake_hdr = struct.pack('<I', 0x20000000) + (keys[h - 1] if h else b'\0' * 32) + pr.randbytes(44)
            if h == 10:
                pd_.record(fake_hdr, h, btc.VALID_TREE, 0, key=keys[h])
            else:
                off = pd_.place(h % 2, b['raw'])
                pd_.record(fake_hdr, h, datadir.ACTIVE if h < 10 else (btc.VALID_TX | btc.HAVE_DATA), 1, h % 2, off, key=keys[h])
        pd_.core_extras()
        pd_.write()
        for s_, e_ in ((None, None), (3, 8), (6, None)):
            r = run.run_parser(pd_.path, 'csvdump', dump=w.mk('out'), start=s_, end=e_)
            lo, hi = s_ or 0, min(e_ if e_ is not None else 9, 9)
            exp, _ = ref.csv_expected([(h, pblocks[h]) for h in range(lo, hi + 1)], 'bitcoin')
            ck.evals()
            ck.distinct(('pow-keys', nz, s_, e_))
            bad = [f for f in exp if r.files.get('%s-%d-%d.csv' % (f, lo, hi)) != exp[f]]
            if r.rc != 0 or bad:
                ck.violation('index whose keys end in %d zero bytes (proof-of-work shaped), tip 9, header-only record at 10, stored block at 11; csvdump --start %s --end %s: '
                             'exit %d, dump folder %s, files differing from heights %d..%d: %s' % (nz, s_, e_, r.rc, r.listing, lo, hi, bad),
                             {'zero_bytes': nz, 'start': s_, 'end': e_, 'observed': r.brief(), 'tags': []})

    # --- T: long runs, traces validated against the specification
    rng = random.Random(run.seed() * 7919 + 2)
    jobs = []
    ntr = 6 if quick else 40
    for i in range(ntr):
        n = rng.choice([1, 2, 30, 120] if quick else [1, 2, 3, 50, 200, 600])
        cb = rng.choice(['csvdump', 'unspentcsvdump', 'balances', 'simplestats', 'opreturn'])
        s = rng.choice([0, 0, rng.randrange(0, n)])
        e = rng.choice([None, None, rng.randrange(s + 1, n + 3)])
        jobs.append((n, cb, s, e, random.Random(rng.random())))
    # heights in the millions: sparse tail (the index holds only records around H)
    for H in ([209998] if quick else [65535, 209998, 1000000, 2097155]):
        jobs.append((5, 'csvdump', H + 1, H + 3, random.Random(H), H))

    # wall-clock time: runs that take longer than the progress-report interval (10 s), once and twice
    for cb, stall in (('csvdump', '3:10400'), ('unspentcsvdump', '2:10400,5:10400'), ('simplestats', '4:10400')) if quick else \
            (('csvdump', '3:10400'), ('unspentcsvdump', '2:10400,5:10400'), ('balances', '1:10400,2:10400,6:10400'), ('simplestats', '4:10400'), ('opreturn', '4:10400')):
        jobs.append((8, cb, 1, None, random.Random(stall), 0, stall))

    for i in range(3 if quick else 12):
        jobs.append((60, ['csvdump', 'opreturn', 'simplestats'][i % 3], [0, 7, 0][i % 3], None, random.Random('%d-eq-%d' % (run.seed(), i)), 0, 'equal'))

    def tjob(j):
        n, cb, s, e, r0 = j[:5]
        h0 = j[5] if len(j) > 5 else 0
        tr, r = traced_run(w, r0, n, cb, s, e, h0=h0, stall=j[6] if len(j) > 6 and j[6] != 'equal' else None, equal=len(j) > 6 and j[6] == 'equal')
        return j, tr, r
    ran = chains.pmap(tjob, jobs, 12)
    verdicts = tracecheck.validate_many([x[1] for x in ran], batch=3)
    for (j, tr, r), v in zip(ran, verdicts):
        n, cb, s, e = j[:4]
        h0 = j[5] if len(j) > 5 else 0
        ck.traces()
        ck.evals()
        ck.distinct(('trace', n, cb, s, e, h0) + tuple(j[6:7]))
        exp_last = min(e, h0 + n - 1) if e is not None else h0 + n - 1
        probs = []
        if r.rc != 0:
            probs.append('exit status %d on a fault-free chain' % r.rc)
        if not v['accepted']:
            probs.append('trace rejected by BlockParser.tla: %s at event %s %s' % (v['reason'], v['rejected_at'], v['event'] or ''))
        delivered = [x['h'] for x in r.events if x['ev'] == 'deliver']
        if delivered != list(range(s, exp_last + 1)):
            probs.append('delivered heights %s..%s (%d), expected %d..%d' % (delivered[:1], delivered[-1:], len(delivered), s, exp_last))
        if r.rc == 0 and cb in FILECB and r.listing != sorted('%s-%d-%d.csv' % (f, s, exp_last) for f in FILECB[cb]):
            probs.append('dump folder holds %s, expected names carrying %d and %d' % (r.listing, s, exp_last))
        if r.rc == 0 and chains.processed_upto(r.stdout) != exp_last:
            probs.append('"Processed blocks up to height" says %s, expected %s' % (chains.processed_upto(r.stdout), exp_last))
        if probs:
            ck.violation('; '.join(probs), {'scenario': {'blocks': n, 'first_height': h0, 'cb': cb, 'start': s, 'end': e},
                                            'observed': r.brief(), 'trace_verdict': v, 'tags': []})
    # --- ranges over indexes that are not a plain line: the range never influences WHICH chain is the active one, so every
    # ranged csvdump is the slice of the whole-chain csvdump. Competing branches that are higher than the active chain but
    # unusable (an ancestor known by header only / failed), stale lower forks, orphaned records.
    from checks import c04
    A = 7 if quick else 10       # active chain 0..A-1

    def shape(kind, fp, gap):
        # gap < A: the usable part of the competing branch stays below the active tip, so the active chain is 0..A-1
        recs = [{'id': h, 'h': h, 'prev': h - 1, 'data': True, 'valid': 5, 'failed': False} for h in range(A)]
        nid = 100
        if kind in ('hdr', 'failed', 'pruned'):
            prev = fp
            for h in range(fp + 1, A + 3):
                bad = h == gap
                recs.append({'id': nid, 'h': h, 'prev': prev, 'data': not (bad and kind in ('hdr', 'pruned')), 'valid': 2 if bad and kind == 'hdr' else 3,
                             'failed': kind == 'failed' and h >= gap})
                prev = nid
                nid += 1
        elif kind == 'stale':
            prev = fp
            for h in range(fp + 1, min(fp + 3, A - 1)):
                recs.append({'id': nid, 'h': h, 'prev': prev, 'data': True, 'valid': 3, 'failed': False})
                prev = nid
                nid += 1
        return {'recs': recs, 'tip': A - 1, 'active': list(range(A))}
    fjobs = []
    for kind in ('hdr', 'failed', 'stale', 'pruned'):
        for fp, gap in ([(1, 2), (2, 4), (0, A - 1)] if quick else [(f, g) for f in range(0, 5) for g in range(f + 1, A)]):
            for variant in (0, 1):
                fjobs.append((kind, fp, gap, variant))

    def fjob(j):
        kind, fp, gap, variant = j
        rec = shape(kind, fp, gap)
        d, blocks = c04.build_index(w, rec, variant)
        chain = [(h, blocks[h]) for h in range(A)]
        out = []
        ranges = [(None, None)] + [(s_, e_) for s_ in range(0, A) for e_ in (None, s_ + 1, A - 2, A + 1) if e_ is None or e_ > s_]
        if quick:
            ranges = ranges[:1] + random.Random('%s-%s' % (j, run.seed())).sample(ranges[1:], 8)
        for s_, e_ in ranges:
            r = run.run_parser(d.path, 'csvdump', dump=w.mk('out'), start=s_, end=e_, verify=(s_ or 0) % 2 == 0)
            lo, hi = s_ or 0, min(e_ if e_ is not None else A - 1, A - 1)
            exp, _ = ref.csv_expected(chain[lo:hi + 1], 'bitcoin')
            probs = []
            if r.rc != 0:
                probs.append('exit %d: %s' % (r.rc, r.stderr[-200:]))
            else:
                for f in FILECB['csvdump']:
                    name = '%s-%d-%d.csv' % (f, lo, hi)
                    if r.files.get(name) != exp[f]:
                        probs.append('%s is not the slice %d..%d of the whole-chain result (dump folder: %s; heights/hashes in blocks file: %s)'
                                     % (name, lo, hi, r.listing, chains.csv_col(next((v for k, v in r.files.items() if k.startswith('blocks')), b''), 1)))
            out.append(((s_, e_), probs, r))
        return j, rec, out
    for j, rec, out in chains.pmap(fjob, fjobs, 8):
        for (s_, e_), probs, r in out:
            ck.evals()
            ck.traces()
            ck.distinct(('fork-range', j, s_, e_))
            if probs:
                ck.violation('index with a %s branch (fork point %d, defect at height %d), --start %s --end %s: %s' % (j[0], j[1], j[2], s_, e_, '; '.join(probs[:3])),
                             {'records': rec['recs'], 'start': s_, 'end': e_, 'observed': r.brief(), 'tags': []})
    ck.assumptions += ['start <= tip for the naming clause (above the tip nothing is processed and "last" is undefined)',
                       'encoders / LevelDB writer in /verif/lib are the trusted base']


def run_tlc(ck, cfg):
    res = run.tlc('MC_Range', cfg, workers=8, timeout=900)
    ck.add_tlc(res, cfg)
    return res
