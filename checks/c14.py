"""C14 - no script or witness content can abort a run or disturb other rows.

M: Script.tla (TLC): Total / TruncNoAddr over the universe incl. every truncation form (the classifier and the fork tokenizer
   reach a verdict for every script, never past the end); Wire.tla: scriptSig, scriptPubKey and witness items are `bytes`
   fields whose content the decoder cannot inspect - the reads depend on lengths only (DecodeExact for all length classes)
R: (a) in-process volume: every universe script, one-byte mutations of templates, thousands of pushes, PUSHDATA4 with huge
       lengths, random bytes up to 100 KB through script::eval_from_bytes under catch_unwind on all 8 coins - a panic is a
       violation; (b) end to end: hostile byte strings placed in a scriptPubKey, a scriptSig and a witness item of an
       otherwise valid chain, all 8 coins x 5 callbacks: exit 0 and every output equal to the reference model of that chain
"""
import random

from lib import btc, chains, datadir, ref, run, scriptrep
from checks import c15


def hostile_strings(rng, universe, n):
    out = scriptrep.random_scripts(rng, n)
    for u in rng.sample(universe, min(len(universe), n // 4)):
        out.append(scriptrep.concretise(u['items'], rng)[0])
    out += [b'\x6a' + b'\xff' * 80, b'\x6a\x4c\x05\xc3\x28\xa0\xa1\xe2', b'\x00' + bytes([41]) + b'w' * 41, b'\x51\x01x', b'\x60\x29' + b'p' * 41,
            b'\x4c', b'\x4d\x01', b'\x4e\x01\x02\x03', b'\x4b' + b'z' * 10, b'\x6a\x4e\xff\xff\xff\xff' + b'q' * 100]
    return out


def text_scripts():
    """OP_RETURN outputs whose payload is valid multi-byte UTF-8 text, in every push form, with the multi-byte characters at every
    alignment (so that any byte offset at which a consumer might cut the text falls inside a character for some of them)"""
    out = []
    for ch in ('\u00e9', '\u20ac', '\U0001F600', '\ufffd'):
        for a in range(4):
            for n in (30, 120, 300):
                p = ('x' * a + ch * n).encode()[:n * 3]
                p = p.decode('utf-8', 'ignore').encode()
                forms = [b'\x6a' + btc.push(p), b'\x6a' + p]
                if len(p) <= 255:
                    forms.append(b'\x6a\x4c' + bytes([len(p)]) + p)
                forms.append(b'\x6a\x4d' + len(p).to_bytes(2, 'little') + p)
                out += forms[(a + n) % len(forms):][:2]
    return out


def main(ck, tier, w):
    quick = tier == 'quick'
    seed = run.seed()
    res = run.tlc('MC_Script', 'MC_Script_q' if quick else 'MC_Script_t', workers=8, timeout=3000, heap='16g')
    ck.add_tlc(res, 'MC_Script')
    wres = run.tlc('MC_Wire', 'MC_Wire_q', workers=8, timeout=1500, heap='16g', coverage=False)
    ck.add_tlc(wres, 'MC_Wire_q')
    universe = res.replay
    rng = random.Random('%d-c14' % seed)
    ck.cov['rule'] = ('hostile byte strings (universe scripts, mutations, many pushes, huge PUSHDATA4 lengths, random bytes to 100 KB) '
                      'evaluated in-process on 8 coins and placed into scriptPubKey / scriptSig / witness of real chains run through 5 '
                      'callbacks; non-trivial = distinct (coin, string) whose evaluation is not a plain template')
    strings = hostile_strings(rng, universe, 2500 if quick else 40000)
    nv = 0
    for coin in btc.COINS:
        outs = scriptrep.eval_scripts(coin, strings)
        for s, got in zip(strings, outs):
            ck.evals()
            if isinstance(got, dict) and got.get('pattern') in ('NotRecognised', 'Unspendable', 'OpReturn', None):
                ck.distinct((coin, s[:64]))
            if not isinstance(got, dict) or 'panic' in got:
                if nv < 25:
                    nv += 1
                    ck.violation('%s: evaluating the %d-byte script %s... aborts: %s' % (coin, len(s), s.hex()[:80], got),
                                 {'coin': coin, 'script': s.hex()[:6000], 'script_len': len(s), 'observed': got, 'tags': []})
    ck.sample({'hostile_scripts_hex': [s.hex()[:80] for s in strings[::max(1, len(strings) // 6)]]})

    # end to end
    jobs = []
    cbs = ['csvdump', 'unspentcsvdump', 'balances', 'simplestats', 'opreturn']
    for coin in btc.COINS:
        for k in range(2 if quick else 12):
            jobs.append((coin, k))
        jobs.append((coin, -1))         # text payloads, every callback with -vv
        jobs.append((coin, -2))         # template-shaped scripts around data pushes of any length
        jobs.append((coin, -3))         # pushes announcing up to 4 GiB, under an address-space limit
        jobs.append((coin, -4))         # hostile coinbase input scripts under --verify, header versions >= 2
    texts = text_scripts()
    looks = []
    lr = random.Random('%d-c14-looks' % seed)
    for L in (0, 1, 19, 21, 33, 61, 75, 76, 80, 255, 256, 520, 9000):
        dta = lr.randbytes(L)
        pd = btc.push(dta, [None, 1, 2, 4][L % 4] if L <= 75 else [1, 2, 4][L % 3] if L <= 255 else [2, 4][L % 2])
        looks += [b'\x76\xa9' + pd + b'\x88\xac', b'\xa9' + pd + b'\x87', pd + b'\xac']

    def one(j):
        coin, k = j
        r0 = random.Random('%d-c14-%s-%d' % (seed, coin, k))
        pick = [s for s in r0.sample(strings, 12) if len(s) <= 100000]
        big = [s for s in pick if len(s) > 10000][:1]
        pick = [s for s in pick if len(s) <= 10000] + big

        H, K = r0.randbytes(20), b'\x03' + r0.randbytes(32)

        cb_ids = {}

        def txs_fn(h, c):
            txs = [btc.coinbase(h, None, outs=[{'val': 50 * 10 ** 8, 'spk': btc.p2pkh(r0.randbytes(20))}])]
            cb_ids[h] = btc.txid(txs[0])
            if h >= 1 and k == -3:
                huge = [b'\x4e\xff\xff\xff\xff\x00', b'\x6a\x4e\xff\xff\xff\x7f', b'\x4e\x00\x00\x00\x80' + b'x' * 30, b'\x76\xa9\x4e\xfe\xff\xff\xff' + b'y' * 20 + b'\x88\xac',
                        b'\x4d\xff\xff', b'\x00\x4e\xff\xff\xff\xff', b'\x51\x4e\x00\x00\x00\x40' + b'z' * 33 + b'\x51\xae']
                txs.append({'ver': 1, 'ins': [{'txid': r0.randbytes(32), 'idx': 1, 'sig': huge[h % len(huge)], 'seq': 5, 'wit': [huge[(h + 1) % len(huge)]]}],
                            'outs': [{'val': 100 + n, 'spk': x} for n, x in enumerate(huge)] + [{'val': 5, 'spk': btc.p2pkh(r0.randbytes(20))}], 'lock': h})
            elif h >= 1 and k == -2:
                # (witness stacks whose item count needs a 3-byte CompactSize, followed by further transactions in the block)
                txs.append({'ver': 1, 'ins': [{'txid': r0.randbytes(32), 'idx': 1, 'sig': b'\x01\x01', 'seq': 5, 'wit': [b'\x01'] * [253, 300, 70000][h % 3]},
                                              {'txid': r0.randbytes(32), 'idx': 2, 'sig': b'', 'seq': 6, 'wit': [r0.randbytes(h)] * 252}],
                            'outs': [{'val': 100 + n, 'spk': x} for n, x in enumerate(looks[h - 1::3])] + [{'val': 5, 'spk': btc.p2pkh(r0.randbytes(20))}], 'lock': h})
                txs.append({'ver': 1, 'ins': [{'txid': r0.randbytes(32), 'idx': 3, 'sig': b'', 'seq': 7}], 'outs': [{'val': 6, 'spk': btc.p2pkh(r0.randbytes(20))}], 'lock': h})
            elif h >= 1 and k == -1:
                # (this transaction has OP_RETURN outputs only and spends the previous block's coinbase: what its outputs hold never
                # decides whether its inputs are spent)
                txs.append({'ver': 1, 'ins': [{'txid': cb_ids.get(h - 1, r0.randbytes(32)), 'idx': 1 if h >= 2 else 0, 'sig': b'\x01\x01', 'seq': 5}],
                            'outs': [{'val': n, 'spk': x} for n, x in enumerate(
                                # well-known data carriers (witness commitment header, Omni, runestone) BEFORE and between the texts: what
                                # one output holds never decides whether its siblings are reported
                                [b'\x6a\x24\xaa\x21\xa9\xed' + r0.randbytes(32)] + texts[h - 1::3][:4] + [b'\x6a\x26\xaa\x21\xa9\xed' + r0.randbytes(34), b'\x6a\x5d\x02\x01\x02',
                                                                                                  b'\x6a\x14omni' + r0.randbytes(16)] + texts[h - 1::3][4:])], 'lock': h})
                txs[0]['outs'] = [{'val': 0, 'spk': b'\x6a\x24\xaa\x21\xa9\xed' + r0.randbytes(32)}] + txs[0]['outs'] + [{'val': 0, 'spk': b'\x6a' + btc.push(b'pool tag %d' % h)}]
                cb_ids[h] = btc.txid(txs[0])
            elif h >= 1:
                s = pick[(h * 3) % len(pick)]
                t = pick[(h * 3 + 1) % len(pick)]
                u = pick[(h * 3 + 2) % len(pick)]
                # the same 20 bytes under different templates in different blocks: a miner-chosen script in one block must
                # not change how another output is reported later (nothing may be remembered across scripts)
                same = [btc.p2sh(H), btc.p2pkh(H), btc.p2pk(K), btc.p2sh(btc.hash160(K)), btc.p2pkh(btc.hash160(K)), b'\x00\x14' + H][(h - 1) * 2:(h - 1) * 2 + 2]
                txs.append({'ver': 1, 'ins': [{'txid': r0.randbytes(32), 'idx': 1, 'sig': t, 'seq': 5, 'wit': [u, b'', s[:70]]}],
                            'outs': [{'val': 7, 'spk': s}, {'val': 8, 'spk': btc.p2pkh(r0.randbytes(20))}, {'val': 9, 'spk': u}]
                                    + [{'val': 10 + n, 'spk': x} for n, x in enumerate(same)], 'lock': h})
            return txs
        first = 0
        if k == -4:
            # --verify on, header versions >= 2, hostile bytes as the COINBASE input script (truncated pushes of every width at offset 0,
            # a lone opcode, nothing at all): the height BIP34 puts there is none of a parser's business
            first = 1
            cbsigs = [b'\x03\x01', b'\x05', b'\x08\xff\xff', b'\x01', b'\x4c', b'\x4d\x01', b'\x4e\xff\xff\xff\xff', b'', b'\x00', b'\x51', b'\x02\x00', b'\x09' + b'z' * 3]
            blocks, prev = [], b'\0' * 32
            for h in range(4):
                txs = [btc.coinbase(h, btc.p2pkh(r0.randbytes(20))),
                       {'ver': 2, 'ins': [{'txid': r0.randbytes(32), 'idx': 0, 'sig': cbsigs[(h * 3 + 1) % len(cbsigs)], 'seq': 1}], 'outs': [{'val': 5, 'spk': btc.p2pkh(r0.randbytes(20))}], 'lock': 0}]
                txs[0]['ins'][0]['sig'] = cbsigs[(h * 3 + seed) % len(cbsigs)] if h else txs[0]['ins'][0]['sig']
                blocks.append(datadir.mk_block(prev, txs, t=1300000000 + h, ver=([2, 3, 0x20000000, 4] if coin not in ('namecoin', 'dogecoin') else [2, 3, 4, 0x100])[h], nonce=h))      # (below the AuxPoW activation versions)
                prev = blocks[-1]['hash']
        else:
            blocks = chains.std_chain(4, coin, txs_fn=txs_fn)
        d = datadir.simple_dir(w.sub('dd'), blocks, coin).write()
        chain = list(enumerate(blocks))[first:]
        probs = []
        last = None
        for cb in cbs:
            r = run.run_parser(d, cb, dump=w.mk('out') if cb in cbs[:3] else None, coin=coin, timeout=120, verbose=(k + len(cb)) % 3 if k != -1 else 2,
                               start=first or None, verify=(k == -4),
                               aslimit=3 * 2 ** 30 if k == -3 else None, threads=2 if k == -3 else None)
            last = r
            if r.rc != 0:
                probs.append('%s: exit status %d: %s' % (cb, r.rc, r.stderr[-300:]))
                continue
            if cb == 'csvdump':
                exp, _ = ref.csv_expected(chain, coin)
                for f in exp:
                    if r.files.get('%s-%d-3.csv' % (f, first)) != exp[f]:
                        probs.append('csvdump %s differs from the reference model of the chain' % f)
            elif cb == 'unspentcsvdump':
                if set(r.files.get('unspent-%d-3.csv' % first, b'').decode('utf-8', 'replace').splitlines()[1:]) != ref.unspent_rows(ref.utxo_expected(chain, coin)):
                    probs.append('unspent rows differ from the reference model')
            elif cb == 'balances':
                if set(r.files.get('balances-%d-3.csv' % first, b'').decode('utf-8', 'replace').splitlines()[1:]) != ref.balances_rows(ref.utxo_expected(chain, coin)):
                    probs.append('balances rows differ from the reference model')
            elif cb == 'simplestats':
                p = c15.compare(chains.parse_stats(r.stdout), c15.expected_from_ref(chain, coin))
                if p:
                    probs.append('simplestats: ' + '; '.join(p[:2]))
            else:
                exp = ref.opreturn_expected(chain, coin)
                got = chains.strip_log(r.out)
                pos = 0
                for line in [x for x in exp if x is not None]:
                    q = got.find(line, pos)
                    if q < 0:
                        probs.append('opreturn: expected line missing: %r' % line[:100])
                        break
                    pos = q + len(line)
        return j, [s.hex()[:120] for s in pick], probs, last
    for j, pick, probs, r in chains.pmap(one, jobs, 8):
        ck.evals(5)
        ck.traces(5)
        if probs:
            ck.violation('%s chain with hostile script/witness content: %s' % (j[0], '; '.join(probs[:3])),
                         {'coin': j[0], 'strings_hex': pick, 'observed': r.brief() if r else None, 'tags': []})
    ck.assumptions += ['built in the debug profile (overflow checks on), as the test suite is',
                       'a payload line of an OP_RETURN script outside C16\'s statement is not judged, only that the run completes']
