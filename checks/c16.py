"""C16 - opreturn prints exactly the non-empty (UTF-8) payloads of OP_RETURN + one push outputs, in chain order.

M: Script.tla (TLC): the payload item of every script of the universe (BtcVerdict/ForkVerdict .payload; OP_RETURN followed
   by anything but exactly one push is not judged) + the delivery order of BlockParser.tla (MC_Range: Deliver in height order)
R: the universe's OP_RETURN scripts and every other script type are mixed into real chains with payload classes (ASCII,
   multi-byte UTF-8, invalid UTF-8, empty; every push form that can carry the length) and run through `opreturn` on
   bitcoin/testnet3 and fork coins, also with ranges; stdout minus log lines compared byte for byte
"""
import os
import random

from lib import btc, chains, datadir, ref, run, scriptrep

PAYLOADS = [b'hello', b'x', 'Grüße € \U0001F600'.encode(), b'\xff\xfe\xfd', b'ok\xc3', b'\xc3\x28', b'', b'a' * 75, b'b' * 76, b'c' * 80,
            b'd' * 255, b'e' * 256, b'f' * 3000, b'\xaa\x21\xa9\xed' + b'Z' * 32, b'\xaa\x21\xa9\xed' + bytes(range(200, 232)), b'g' * 9996, b'h' * 9997, b'i' * 20000, b'j' * 70000, ('\u00e9' * 5100).encode(), 'a\ufffdb'.encode(), '\ufffd'.encode() * 5, ('\ufffd' * 101).encode(),
            ('x' * 79 + '\u00e9' * 20).encode(), ('\u00e9' * 60).encode(), ('y' + '\u00e9' * 60).encode(), ('\u20ac' * 40).encode(), ('zz' + '\u20ac' * 40).encode(),
            ('\U0001F600' * 30).encode(), ('q' + '\U0001F600' * 30).encode(), 'snow☃'.encode() * 30, b'with;semicolon and "quotes"', b'tab\there', b'\x00nul']


def forms_for(n):
    f = [1, 2, 4]
    if 0 < n <= 75:
        f.append('d')
    return [x for x in f if not (x == 1 and n > 255) and not (x == 2 and n > 65535)]


def main(ck, tier, w):
    quick = tier == 'quick'
    seed = run.seed()
    res = run.tlc('MC_Script', 'MC_Script_q' if quick else 'MC_Script_t', workers=8, timeout=3000, heap='16g')
    ck.add_tlc(res, 'MC_Script')
    rres = run.tlc('MC_Range', 'MC_Range_q', workers=8, timeout=900)
    ck.add_tlc(rres, 'MC_Range_q (chain order of Deliver)')
    universe = res.replay
    opret = [u for u in universe if u['btc']['pat'] == 'OpReturn' or u['fork']['pat'] == 'OpReturn']
    others = [u for u in universe if u['btc']['pat'] != 'OpReturn' and u['fork']['pat'] != 'OpReturn']
    ck.cov['op_return_scripts_in_universe'] = len(opret)
    ck.cov['rule'] = ('chains mixing OP_RETURN outputs (every push form x payload class) with every other script type, run through '
                      '`opreturn` on 8 coins with and without ranges; non-trivial = chain containing a payload that needs PUSHDATA, '
                      'is multi-byte or invalid UTF-8, or is empty')
    rng = random.Random(seed)
    jobs = []
    for i in range(60 if quick else 400):
        r0 = random.Random('%d-c16-%d' % (seed, i))
        coin = r0.choice(list(btc.COINS))
        jobs.append((i, coin, r0))

    def one(j):
        i, coin, r0 = j
        nblk = r0.choice([2, 3, 5])
        chain_spks = []
        for h in range(nblk):
            spks = []
            for _ in range(r0.randrange(1, 7)):
                c = r0.random()
                if c < 0.55:
                    p = r0.choice(PAYLOADS)
                    spks.append(b'\x6a' + btc.push(p, r0.choice(forms_for(len(p)))) if p else b'\x6a' + r0.choice([b'\x00', b'\x4c\x00', b'\x4d\x00\x00']))
                elif c < 0.75:
                    u = r0.choice(opret)
                    spks.append(scriptrep.concretise(u['items'], r0)[0])
                else:
                    u = r0.choice(others)
                    b = scriptrep.concretise(u['items'], r0)[0]
                    spks.append(b if len(b) < 5000 else b'\x51')
            chain_spks.append(spks)
        txs_fn = lambda h, c: [btc.coinbase(h, None, outs=[{'val': 1, 'spk': chain_spks[h][0]}])] + \
            [{'ver': 1, 'ins': [{'txid': r0.randbytes(32), 'idx': 0, 'sig': b'', 'seq': 0}], 'outs': [{'val': k, 'spk': s} for k, s in enumerate(chain_spks[h][1:])], 'lock': h}]
        blocks = chains.std_chain(nblk, coin, txs_fn=txs_fn)
        d = datadir.simple_dir(w.sub('dd'), blocks, coin).write()
        s = r0.choice([0, 0, 1])
        e = r0.choice([None, None, nblk - 2]) if nblk - 2 > s else None
        r = run.run_parser(d, 'opreturn', coin=coin, start=s or None, end=e)
        last = nblk - 1 if e is None else e
        exp = ref.opreturn_expected([(h, blocks[h]) for h in range(s, last + 1)], coin)
        got = chains.strip_log(r.out)
        probs = []
        if r.rc != 0:
            probs.append('exit status %d: %s' % (r.rc, r.stderr[-300:]))
        elif None in exp:
            # some output is OP_RETURN followed by something else than one push: its line is not judged - compare the rest
            want = [x for x in exp if x is not None]
            pos = 0
            for line in want:
                k = got.find(line, pos)
                if k < 0:
                    probs.append('expected line missing or out of order: %r' % line[:120])
                    break
                pos = k + len(line)
        elif got != b''.join(exp):
            gl, el = got.split(b'\n'), b''.join(exp).split(b'\n')
            k = next((n for n in range(min(len(gl), len(el))) if gl[n] != el[n]), min(len(gl), len(el)))
            probs.append('stdout line %d: got %r, expected %r' % (k, gl[k][:150] if k < len(gl) else None, el[k][:150] if k < len(el) else None))
        return j, chain_spks, (s, e), probs, r, exp
    for j, spks, rg, probs, r, exp in chains.pmap(one, jobs):
        ck.evals()
        ck.traces()
        flat = [x for b in spks for x in b]
        if any(x[:1] == b'\x6a' and (x[1:2] in (b'\x4c', b'\x4d', b'\x4e') or x in (b'\x6a\x00',)) for x in flat):
            ck.distinct((j[0], j[1]))
        ck.sample({'coin': j[1], 'range': rg, 'scripts_hex': [x.hex()[:60] for x in flat][:8],
                   'expected_lines': [x.decode('utf-8', 'replace')[:100] if x else None for x in exp][:4]}, limit=4)
        if probs:
            ck.violation('%s: %s' % (j[1], '; '.join(probs)), {'coin': j[1], 'range': rg, 'scripts': [[x.hex()[:300] for x in b] for b in spks],
                                                               'observed': r.brief(), 'tags': []})
    # payloads with control characters (valid UTF-8), and what standard output is connected to - pipe, regular file, terminal -
    # changes nothing: "exactly the pushed payload"
    ctl = [b'tab\there', b'esc \x1b[31mred\x1b[0m', b'bell\x07', b'nul\x00byte', b'del\x7f', 'nel\u0085x'.encode(), b'cr\rlf', b'\x08\x08bs', b'\x0b\x0c',
           b'\xaa\x21\xa9\xed' + bytes(range(32)), b'\xaa\x21\xa9\xed' + b'A' * 32, b'omni\x00\x00\x00\x00', b'CNTRPRTY', b'\x5d']      # (well-known carriers; these sit in coinbase transactions here)
    for coin in ('bitcoin', 'dogecoin', 'testnet3'):
        blocks = chains.std_chain(3, coin, txs_fn=lambda h, c: [btc.coinbase(h, None, outs=[{'val': 1, 'spk': b'\x6a' + btc.push(p)} for p in ctl[h::3]])])
        d = datadir.simple_dir(w.sub('dd'), blocks, coin).write()
        exp = b''.join(ref.opreturn_expected(list(enumerate(blocks)), coin))
        for mode in ('pipe', 'pty'):
            r = run.run_parser(d, 'opreturn', coin=coin, pty=(mode == 'pty'))
            ck.evals()
            ck.distinct(('ctl', coin, mode))
            if r.rc != 0 or chains.strip_log(r.out) != exp:
                ck.violation('%s, standard output on a %s: lines for payloads with control characters differ from the payloads (exit %d): got %r' %
                             (coin, mode, r.rc, chains.strip_log(r.out)[:300]), {'coin': coin, 'stdout': mode, 'payloads_hex': [p.hex() for p in ctl],
                                                                               'observed': r.brief(), 'tags': []})
    # "<opcode> <push>" for every opcode that is not OP_RETURN prints nothing (opcode classes of a library group reserved and
    # undefined opcodes with OP_RETURN; the statement does not)
    for coin in ('litecoin', 'bitcoin'):
        ops = [o for o in range(256) if o not in (0x4c, 0x4d, 0x4e) and not 1 <= o <= 75]
        blocks = chains.std_chain(3, coin, txs_fn=lambda h, c: [btc.coinbase(h, None, outs=[{'val': 1, 'spk': bytes([o]) + btc.push(b'op %02x' % o)} for o in ops[h::3]])])
        d = datadir.simple_dir(w.sub('dd'), blocks, coin).write()
        exp = b''.join(x for x in ref.opreturn_expected(list(enumerate(blocks)), coin) if x is not None)
        r = run.run_parser(d, 'opreturn', coin=coin)
        ck.evals()
        ck.distinct(('every-opcode', coin))
        if r.rc != 0 or chains.strip_log(r.out) != exp:
            ck.violation('%s: outputs "<opcode> <push>" for every opcode: exit %d, printed lines %r, expected %r' % (coin, r.rc, chains.strip_log(r.out)[-300:], exp[-200:]),
                         {'coin': coin, 'observed': r.brief(), 'tags': []})

    # chain order inside a block, whatever the sizes: small lines before, between and after payloads of 300 000 and 1 100 000 bytes
    for coin in ('bitcoin', 'namecoin'):
        seq = [b'first', b'A' * 300000, b'third', b'B' * 1100000, b'fifth', b'C' * 262017, b'D' * 262016, b'last']
        blocks = chains.std_chain(3, coin, txs_fn=lambda h, c: [btc.coinbase(h, None, outs=[{'val': 1, 'spk': b'\x6a' + btc.push(b'cb%d' % h)}]),
                                                                {'ver': 1, 'ins': [{'txid': bytes([h]) * 32, 'idx': 0, 'sig': b'', 'seq': 0}],
                                                                 'outs': [{'val': k, 'spk': b'\x6a' + btc.push(p)} for k, p in enumerate(seq if h == 1 else seq[:1])], 'lock': 0}])
        d = datadir.simple_dir(w.sub('dd'), blocks, coin).write()
        exp = b''.join(ref.opreturn_expected(list(enumerate(blocks)), coin))
        r = run.run_parser(d, 'opreturn', coin=coin, timeout=120)
        ck.evals()
        ck.distinct(('order-huge', coin))
        got = chains.strip_log(r.out)
        if r.rc != 0 or got != exp:
            gl, el = got.split(b'\n'), exp.split(b'\n')
            k = next((n for n in range(min(len(gl), len(el))) if gl[n] != el[n]), min(len(gl), len(el)))
            ck.violation('%s: lines of a block holding small and very large payloads are not in chain order (exit %d): line %d is %r..., expected %r...' % (
                coin, r.rc, k, gl[k][-40:] if k < len(gl) else None, el[k][-40:] if k < len(el) else None), {'coin': coin, 'observed': {'rc': r.rc, 'stderr': r.stderr[-300:]}, 'tags': []})
    # lines of the blocks processed before a failure are printed too (every processed output prints its line)
    for coin in ('bitcoin', 'litecoin'):
        blocks = chains.std_chain(6, coin)
        d = datadir.simple_dir(w.sub('dd'), blocks, coin).write()
        p = os.path.join(d, 'blk00000.dat')
        os.truncate(p, os.path.getsize(p) - 40)
        r = run.run_parser(d, 'opreturn', coin=coin)
        exp = b''.join(ref.opreturn_expected([(h, blocks[h]) for h in range(5)], coin))
        ck.evals()
        ck.distinct(('aborted-run', coin))
        if r.rc == 0 or chains.strip_log(r.out) != exp:
            ck.violation('%s: run aborted at height 5 (exit %d) printed %r instead of the lines of heights 0..4' % (coin, r.rc, chains.strip_log(r.out)[:200]),
                         {'coin': coin, 'observed': r.brief(), 'tags': []})
    ck.assumptions += ['OP_RETURN followed by anything else than exactly one push is outside the statement: such lines are not judged',
                       'log lines share stdout with the payload lines and are removed by their exact `[HH:MM:SS] LEVEL - target: ` shape; '
                       'generated payloads never imitate it']
