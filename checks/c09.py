"""C09 - --verify accepts exactly the chains whose merkle roots, prev-hash links and genesis hash hold.

M: MC_Verify (TLC: every vector of per-block alterations {none, tx, merkle, prev, foreign} x start x verify on/off) with
   VerifyIff / NoVerifyNoReject / FailureLeavesNone; Merkle.tla (the tree algorithm vs Bitcoin's definition, 1..33 leaves)
R: every terminal state replayed with real bit flips; consistent chains with every interesting tx count on all 8 coins must
   pass (real genesis blocks where reconstructible); bit-flip sweeps over tx bytes / merkle field / prev field; witness
   bytes (not covered by a txid) must be accepted
"""
import random
import re
import struct

from lib import btc, chains, datadir, run, tracecheck

KINDS = ('none', 'tx', 'merkle', 'prev', 'foreign')


def tx_region(block):
    """byte range of the block's serialized transactions (legacy: all covered by txids)"""
    start = 80 + len(btc.cs(len(block['txs'])))
    return start, len(block['raw'])


def flip(data, pos, bit):
    b = bytearray(data)
    b[pos] ^= 1 << bit
    return bytes(b)


def alter(block, kind, rng, below=None):
    """below: bytes stored at the height below (for kind "chain")"""
    raw = block['raw']
    if kind == 'none':
        return raw, None
    if kind == 'nonce':
        # time / bits / nonce: covered by no check of --verify (the block merely stops hashing to its indexed hash)
        pos, bit = rng.randrange(68, 80), rng.randrange(8)
        return flip(raw, pos, bit), (pos, bit)
    if kind == 'chain':
        prev = btc.sha256d(below[:80]) if below is not None else b'\0' * 32
        fb = datadir.mk_block(prev, [btc.coinbase(9, btc.p2pkh(rng.randbytes(20)), extra=rng.randbytes(4))], nonce=rng.randrange(1 << 32))
        return fb['raw'], 'chain'

    if kind == 'tx':
        lo, hi = tx_region(block)
        pos, bit = rng.randrange(lo, hi), rng.randrange(8)
    elif kind == 'merkle':
        pos, bit = rng.randrange(36, 68), rng.randrange(8)
    elif kind == 'prev':
        pos, bit = rng.randrange(4, 36), rng.randrange(8)
    else:
        fb = datadir.mk_block(rng.randbytes(32), [btc.coinbase(7, btc.p2pkh(rng.randbytes(20)), extra=rng.randbytes(4))], nonce=rng.randrange(1 << 32))
        return fb['raw'], 'foreign'
    return flip(raw, pos, bit), (pos, bit)


def mk_chain(n, coin, rng, ntx_fn=lambda h: 1, real_genesis=True, segwit=False, odd=False):
    """chain starting at the coin's real genesis block when it can be reconstructed"""
    blocks = []
    g = btc.genesis_block(coin) if real_genesis else None
    prev = b'\0' * 32
    for h in range(n):
        if h == 0 and g:
            hdr, txs = g
            b = {'hdr': hdr, 'hash': btc.sha256d(hdr), 'txs': txs, 'raw': btc.ser_block(hdr, txs)}
        else:
            txs = [btc.coinbase(h, btc.p2pkh(rng.randbytes(20)), extra=rng.randbytes(3))]
            if segwit:
                # post-segwit coinbase: witness reserved value and one or two witness-commitment outputs (aa21a9ed...).  C09 is about
                # merkle root and links; what such an output commits to is none of --verify's business
                txs[0]['ins'][0]['wit'] = [b'\0' * 32]
                for _ in range(rng.choice([1, 1, 2])):
                    txs[0]['outs'].append({'val': 0, 'spk': b'\x6a\x24\xaa\x21\xa9\xed' + rng.randbytes(32)})
            for k in range(ntx_fn(h) - 1):
                wit = [rng.randbytes(rng.randrange(0, 70)) for _ in range(rng.randrange(1, 3))] if segwit else None
                txs.append({'ver': 2, 'ins': [{'txid': rng.randbytes(32), 'idx': k, 'sig': rng.randbytes(rng.randrange(0, 30)), 'seq': 0xffffffff, 'wit': wit}],
                            'outs': [{'val': rng.randrange(10 ** 9), 'spk': btc.p2pkh(rng.randbytes(20))}], 'lock': 0})
                if odd and k % 3 == 0:
                    # stored with non-minimal CompactSize encodings: a txid is the hash of the bytes as stored
                    t = txs[-1]
                    t[rng.choice(['w_in', 'w_out'])] = rng.choice([3, 5, 9])
                    rng.choice([t['ins'][0]] + t['outs'][:1])['w'] = rng.choice([3, 5, 9])
            if h % 2 == 1:
                # transactions of exactly 64 stripped bytes (the size of an inner merkle node): one input and one output whose two
                # scripts total 4 bytes, or one input with a 13-byte script and no output
                txs.append({'ver': 1, 'ins': [{'txid': rng.randbytes(32), 'idx': 0, 'sig': b'\x01\x51', 'seq': 0}], 'outs': [{'val': 5, 'spk': b'\x51\x51'}], 'lock': 0})
                txs.append({'ver': 1, 'ins': [{'txid': rng.randbytes(32), 'idx': 0, 'sig': b'\x0c' + rng.randbytes(12), 'seq': 0}], 'outs': [], 'lock': 0})
            if odd and h % 2 == 0 and len(txs) >= 2:
                # the last transaction repeated / the whole list repeated: equal hashes as the last pair of a tree level (the shape
                # behind CVE-2012-2459).  The merkle root of such a list is what it is; a block whose header holds it is consistent
                txs = txs + [txs[-1]] if len(txs) % 2 == 1 else txs + txs
            # timestamps are arbitrary u32 values (also far in the future): --verify does not look at the clock
            b = datadir.mk_block(prev, txs, t=rng.choice([1300000000 + 600 * h, rng.randrange(1, 2 ** 32), 2 ** 32 - 1 - h]), nonce=h)
        blocks.append(b)
        prev = b['hash']
    return blocks, bool(g)


def write_dir(w, blocks, coin, stored=None):
    d = datadir.DataDir(w.sub('dd'), coin)
    for h, b in enumerate(blocks):
        raw = stored[h] if stored else b['raw']
        off = d.place(0, raw)
        d.record(b['hdr'], h, datadir.ACTIVE, len(b['txs']), 0, off)
    d.core_extras()
    d.write()
    return d


def judge(r, expect_ok, err_h, cb):
    """-> problems"""
    probs = []
    finals = [f for f in r.listing if not f.endswith('.tmp')]
    if expect_ok:
        if r.rc != 0:
            probs.append('consistent chain rejected (exit %d): %s' % (r.rc, r.stderr[-300:]))
    else:
        if r.rc == 0:
            probs.append('run succeeded although block %s is inconsistent' % err_h)
        else:
            m = re.search(r'Error at height (\d+)', r.stderr)
            if r.rc == 1 and (not m or int(m.group(1)) != err_h):
                probs.append('failure reported at height %s, first inconsistent height is %s' % (m.group(1) if m else None, err_h))
        if finals:
            probs.append('final-named output left behind by a failed run: %s' % finals)
    return probs


def main(ck, tier, w):
    quick = tier == 'quick'
    seed = run.seed()
    cfg = 'MC_Verify_q' if quick else 'MC_Verify_t'
    res = run.tlc('MC_Verify', cfg, workers=8, timeout=2400)
    ck.add_tlc(res, cfg)
    ck.require_actions(res, ['Verify', 'Deliver', 'SeekRead'], cfg)
    mres = run.tlc('Merkle', 'Merkle', workers=2, timeout=300)
    ck.add_tlc(mres, 'Merkle')
    obs_list = res.replay
    rng0 = random.Random(seed)
    if len(obs_list) > (1500 if quick else 12000):
        rng0.shuffle(obs_list)
        ck.cov['replay_sampled_from'] = len(obs_list)
        obs_list = obs_list[:1500 if quick else 12000]
    ck.cov['rule'] = ('every alteration vector x start x verify (TLC) replayed with real bit flips; consistent chains with tx counts '
                      '1..9,15..17,31..33,100,255,256 on 8 coins; bit-flip sweeps; non-trivial = scenario with >= 1 altered block '
                      'inside the processed range and --verify on')

    def one(item):
        i, obs = item
        rng = random.Random('%d-c09-%d' % (seed, i))
        coin = rng.choice(['bitcoin', 'testnet3', 'litecoin', 'dogecoin'])
        blocks, _ = mk_chain(obs['T'] + 1, coin, rng, ntx_fn=lambda h: rng.choice([1, 2, 3, 5]))
        stored, how = [], []
        for h, k in enumerate(obs['kinds']):
            raw, what = alter(blocks[h], k, rng, stored[h - 1] if h else None)
            stored.append(raw)
            how.append(what)
        d = write_dir(w, blocks, coin, stored)
        cb = obs['cb']
        # traces are validated where the stored headers are intact (an altered header makes the block at the record's place
        # another block than the record's, which the trace specification rightly refuses under C03)
        tr = w.sub('trace') if obs['verify'] and all(k in ('none', 'tx') for k in obs['kinds']) and i % 2 == 0 else None
        r = run.run_parser(d.path, cb, dump=w.mk('out') if cb == 'csvdump' else None, coin=coin,
                           start=obs['start'] or None, end=None if obs['end'] == -1 else obs['end'], verify=obs['verify'], trace=tr,
                           skip='spend,create,eval,dump_row,bal_row')
        if not obs['verify']:
            # without --verify altered bytes may still make a block undecodable: only intact chains are judged
            probs = judge(r, True, None, cb) if all(k == 'none' for k in obs['kinds']) else []
        else:
            probs = judge(r, obs['exit'] == 0, obs['errH'], cb)
        return obs, coin, how, probs, r, tr
    ran = chains.pmap(one, list(enumerate(obs_list)))
    # T: verify events of a quarter of the runs validated against BlockParser.tla (verdict = merkle /\ genesis /\ link)
    traced = [x for x in ran if x[5]]
    for x, v in zip(traced, tracecheck.validate_many([x[5] for x in traced], batch=50)):
        ck.traces()
        if not v['accepted']:
            x[3].append('trace rejected by BlockParser.tla: %s at event %s %s' % (v['reason'], v['rejected_at'], v['event'] or ''))
    for obs, coin, how, probs, r, tr in ran:
        ck.evals()
        ck.traces()
        if obs['verify'] and any(k != 'none' for k in obs['kinds'][obs['start']:]):
            ck.distinct((obs['T'], tuple(obs['kinds']), obs['start'], obs['end'], obs['cb']))
        ck.sample({'T': obs['T'], 'alterations': obs['kinds'], 'start': obs['start'], 'end': obs['end'], 'verify': obs['verify'], 'expected_exit': obs['exit'],
                   'expected_error_height': obs['errH']})
        if probs:
            ck.violation('; '.join(probs), {'scenario': obs, 'coin': coin, 'bit_flips': how, 'observed': r.brief(), 'tags': []})

    # consistent chains: every tree shape, all coins, every start
    counts = [1, 2, 3, 4, 5, 6, 7, 8, 9, 15, 16, 17, 31, 32, 33, 100, 255, 256, 2049]
    if not quick:
        counts += [3072, 1023, 1025, 2047, 2048, 2050, 2052, 4097, 5000]
    jobs = []
    for ci, coin in enumerate(btc.COINS):
        for j in range(2 if quick else 6):
            r0 = random.Random('%d-ok-%s-%d' % (seed, coin, j))
            jobs.append((coin, r0, [r0.choice(counts) for _ in range(4)], r0.choice([0, 0, 1, 2, 3]), j % 2 == 1, (ci + j) % 3 == 0))

    def okjob(j):
        coin, r0, cnts, start, segwit, odd = j
        blocks, real = mk_chain(len(cnts) + 1, coin, r0, ntx_fn=lambda h: cnts[h - 1], segwit=segwit, odd=odd)
        if not real and start == 0:
            start = 1      # genesis parameters of this coin are not available offline: acceptance at height 0 not exercised
        d = write_dir(w, blocks, coin)
        r = run.run_parser(d.path, 'simplestats', coin=coin, start=start or None, verify=True)
        probs = judge(r, True, None, 'simplestats')
        # the same transactions stored with a different (non-minimal) encoding of one length field are different bytes: the
        # header no longer commits to them
        if not probs and not odd:
            h = r0.randrange(max(start, 1), len(blocks))
            import copy
            txs2 = copy.deepcopy(blocks[h]['txs'])
            t = txs2[r0.randrange(len(txs2))]
            if r0.random() < 0.5:
                t[r0.choice(['w_in', 'w_out'])] = r0.choice([3, 5, 9])
            else:
                r0.choice([t['ins'][0]] + t['outs'][:1])['w'] = r0.choice([3, 5, 9])
            stored = [b['raw'] for b in blocks]
            stored[h] = btc.ser_block(blocks[h]['hdr'], txs2)
            d3 = write_dir(w, blocks, coin, stored)
            r3 = run.run_parser(d3.path, 'simplestats', coin=coin, start=start or None, verify=True)
            probs += ['re-encoded length field at height %d: %s' % (h, p) for p in judge(r3, False, h, 'simplestats')]
        # a copy of the coin's genesis block stored at a later height is internally consistent (merkle root, known hash) but does
        # not link to the block below it, and height 0 is the only place where the genesis hash settles anything
        if not probs and real and len(blocks) > 2:
            h = r0.randrange(max(start, 1), len(blocks))
            stored = [b['raw'] for b in blocks]
            stored[h] = blocks[0]['raw']
            d4 = write_dir(w, blocks, coin, stored)
            r4 = run.run_parser(d4.path, 'simplestats', coin=coin, start=start or None, verify=True)
            probs += ['genesis block stored at height %d: %s' % (h, p) for p in judge(r4, False, h, 'simplestats')]
        # witness bytes are not covered by a txid: flipping them must not cause a rejection
        if segwit and not probs:
            stored = [b['raw'] for b in blocks]
            h = r0.randrange(max(start, 1), len(blocks))
            tx = next((t for t in blocks[h]['txs'] if any(i.get('wit') for i in t['ins'])), None)
            if tx:
                wbytes = next(it for i in tx['ins'] for it in (i.get('wit') or []) if it) if any(it for i in tx['ins'] for it in (i.get('wit') or [])) else None
                if wbytes and len(wbytes) >= 8:
                    pos = stored[h].find(wbytes)
                    if pos > 0 and stored[h].count(wbytes) == 1:
                        stored[h] = flip(stored[h], pos + r0.randrange(len(wbytes)), r0.randrange(8))
                        d2 = write_dir(w, blocks, coin, stored)
                        r2 = run.run_parser(d2.path, 'simplestats', coin=coin, start=start or None, verify=True)
                        probs += ['witness flip: ' + p for p in judge(r2, True, None, 'simplestats')]
        return j, start, probs, r
    for j, start, probs, r in chains.pmap(okjob, jobs):
        ck.evals()
        ck.distinct(('ok', j[0], tuple(j[2]), start))
        if probs:
            ck.violation('; '.join(probs), {'scenario': {'coin': j[0], 'tx_counts': j[2], 'start': start, 'segwit': j[4]},
                                            'observed': r.brief(), 'tags': []})

    # a block whose prev-hash names a STALE block that the index also knows at the height below: "the indexed hash of the preceding
    # height" is the active chain's, not any header of that height
    for coin in ('bitcoin', 'litecoin'):
        r0 = random.Random('%d-stale-prev-%s' % (seed, coin))
        blocks, real = mk_chain(6, coin, r0, ntx_fn=lambda h: 3)
        for stale_has_data in (True, False):
            for hx in (2, 4):
                stale = datadir.mk_block(blocks[hx - 2]['hash'], [btc.coinbase(hx - 1, btc.p2pkh(r0.randbytes(20)), extra=b'stale')], t=1300000000, nonce=77)
                swapped = datadir.mk_block(stale['hash'], blocks[hx]['txs'], t=1300000600, nonce=78)
                d = datadir.DataDir(w.sub('dd'), coin)
                for h, b in enumerate(blocks):
                    off = d.place(0, swapped['raw'] if h == hx else b['raw'])
                    d.record(b['hdr'], h, datadir.ACTIVE, len(b['txs']), 0, off)
                if stale_has_data:
                    off = d.place(0, stale['raw'])
                    d.record(stale['hdr'], hx - 1, btc.VALID_TX | btc.HAVE_DATA, 1, 0, off)
                else:
                    d.record(stale['hdr'], hx - 1, btc.VALID_TREE, 0)
                d.core_extras()
                d.write()
                st = 0 if real else 1
                r = run.run_parser(d.path, 'csvdump', dump=w.mk('out'), coin=coin, start=st or None, verify=True)
                ck.evals()
                ck.distinct(('stale-prev', coin, stale_has_data, hx))
                probs = judge(r, False, hx, 'csvdump')
                if probs:
                    ck.violation('%s: block at height %d replaced by one that builds on a stale block of height %d known to the index (%s): %s' % (
                        coin, hx, hx - 1, 'with data' if stale_has_data else 'header only', '; '.join(probs)), {'coin': coin, 'height': hx, 'observed': r.brief(), 'tags': []})

    # merged-mined blocks are verified like any other: a changed transaction byte / merkle field in a block that carries an AuxPoW
    # section is rejected at that height
    from lib import wirerep
    for coin in ('namecoin', 'dogecoin'):
        r0 = random.Random('%d-auxverify-%s' % (seed, coin))
        ablocks, prev = [], b'\0' * 32
        for h in range(5):
            rec = {'coin': coin, 'block': {'ver': 1 if h >= 1 else 0, 'aux': {'cb': {'seg': h % 2 == 0, 'ins': ['s'], 'outs': ['s'], 'wit': [['s']]}, 'b1': h, 'b2': 1} if h >= 1 else {'cb': [], 'b1': -1, 'b2': -1},
                                           'txs': [{'seg': False, 'ins': ['s'], 'outs': ['s', 's'], 'wit': [[]]} for _ in range(3)]}}
            b = wirerep.mk_block(rec, r0, prev=prev, t=1400000000 + h, sizes=wirerep.CHAIN_SIZES[0])
            ablocks.append(b)
            prev = b['hash']
        good = write_dir(w, ablocks, coin)
        rg = run.run_parser(good.path, 'csvdump', dump=w.mk('out'), coin=coin, start=1, verify=True)      # (csvdump: the random values would overflow a sum)
        ck.evals()
        if rg.rc != 0:
            ck.violation('%s: consistent chain of AuxPoW blocks rejected under --verify: %s' % (coin, rg.stderr[-200:]), {'coin': coin, 'observed': rg.brief(), 'tags': []})
            continue
        for hx in (2, 4):
            for what in ('tx', 'merkle'):
                stored = [b['raw'] for b in ablocks]
                raw = bytearray(stored[hx])
                if what == 'merkle':
                    raw[36 + r0.randrange(32)] ^= 1 << r0.randrange(8)
                else:
                    tail = btc.ser_tx(ablocks[hx]['txs'][-1])
                    pos = bytes(raw).rfind(tail)
                    raw[pos + 4 + 1 + r0.randrange(32)] ^= 1 << r0.randrange(8)       # inside the prev-txid of the last transaction's input
                stored[hx] = bytes(raw)
                d2 = write_dir(w, ablocks, coin, stored)
                r2 = run.run_parser(d2.path, 'csvdump', dump=w.mk('out'), coin=coin, start=1, verify=True)
                ck.evals()
                ck.distinct(('auxverify', coin, hx, what))
                probs = judge(r2, False, hx, 'csvdump')
                if probs:
                    ck.violation('%s: %s altered in the AuxPoW block at height %d: %s' % (coin, 'transaction bytes' if what == 'tx' else 'merkle-root field', hx, '; '.join(probs)),
                                 {'coin': coin, 'height': hx, 'observed': r2.brief(), 'tags': []})

    # wrong-coin genesis: the genesis block of another coin at height 0 must be rejected
    for coin, other in (('bitcoin', 'testnet3'), ('litecoin', 'dogecoin'), ('namecoin', 'bitcoin'), ('noteblockchain', 'litecoin')):
        r0 = random.Random('%d-g-%s' % (seed, coin))
        ghdr, gtxs = btc.genesis_block(other)
        g = {'hdr': ghdr, 'hash': btc.sha256d(ghdr), 'txs': gtxs, 'raw': btc.ser_block(ghdr, gtxs)}
        rest = datadir.linear_chain(2, prev=g['hash'], h0=1)
        d = write_dir(w, [g] + rest, coin)
        r = run.run_parser(d.path, 'simplestats', coin=coin, verify=True)
        ck.evals()
        probs = judge(r, False, 0, 'simplestats')
        if probs:
            ck.violation('foreign genesis: ' + '; '.join(probs), {'scenario': {'coin': coin, 'genesis_of': other}, 'observed': r.brief(), 'tags': []})

    # bit-flip sweep over one chain of 3 blocks
    r0 = random.Random('%d-sweep' % seed)
    blocks, _ = mk_chain(3, 'bitcoin', r0, ntx_fn=lambda h: 3)
    cases = []
    for h in range(3):
        lo, hi = tx_region(blocks[h])
        region = [(p, 'tx') for p in range(lo, hi)] + [(p, 'merkle') for p in range(36, 68)] + [(p, 'prev') for p in range(4, 36)]
        for p, kind in region:
            for bit in range(8):
                cases.append((h, p, bit, kind))
    if quick:
        cases = r0.sample(cases, 400)
    ck.cov['bitflip_cases'] = len(cases)

    def sweep(c):
        h, p, bit, kind = c
        stored = [b['raw'] for b in blocks]
        stored[h] = flip(stored[h], p, bit)
        d = write_dir(w, blocks, 'bitcoin', stored)
        start = r0.choice([0, h]) if h else 0
        r = run.run_parser(d.path, 'csvdump', dump=w.mk('out'), start=start or None, verify=True)
        return c, judge(r, False, h, 'csvdump'), r
    for c, probs, r in chains.pmap(sweep, cases):
        ck.evals()
        ck.distinct(('flip',) + c)
        if probs:
            ck.violation('bit %d of byte %d (%s) of block %d flipped: %s' % (c[2], c[1], c[3], c[0], '; '.join(probs)),
                         {'scenario': {'block': c[0], 'byte': c[1], 'bit': c[2], 'region': c[3]}, 'observed': r.brief(), 'tags': []})
    ck.assumptions += ['noteblockchain, namecoin, myriadcoin, unobtanium: genesis acceptance at height 0 is not exercised (block '
                       'parameters not reconstructed); their rejection side and heights >= 1 are',
                       'legacy transactions in altered blocks (all bytes covered by a txid)']
