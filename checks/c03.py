"""C03 - the block delivered for a height is the one stored at the (file, offset) its index record names.

M: MC_Layout (TLC: every injective placement of the blocks into files x slots, decoys, extra files, ranges) with
   RightBlock / OnlyActive; VarInt.tla (round trip of Core's VarInt over all 1..3-byte codes and the first 4-byte codes)
R: every terminal state -> two physically different data directories (file numbers up to 2^63, name padding, garbage,
   foreign blocks, heights crossing VarInt widths) -> csvdump output equal to the reference and to each other;
   VarInt values up to 2^64-1 through the real read_varint (driver) against the encoder
T: random layouts with up to hundreds of files, traces validated against BlockParser.tla (file/offset/hash of every fetch)
"""
import os
import random

from lib import btc, chains, datadir, layout, run, tracecheck


def replay(w, obs, rng, coin, h0, variant):
    n = len(obs['lay'])
    blocks = chains.std_chain(n, coin, h0=h0)
    placement = [(p['file'], p['slot']) for p in obs['lay']]
    used = set(placement)
    decoys = [(f, s) for f in {p[0] for p in placement} for s in (1, 2, 3, 4) if (f, s) not in used] if obs['decoy'] else []
    # (a third of the directories is obfuscated here explicitly: random keys, keys starting with four zero bytes)
    xk = [None, None, rng.randbytes(8), bytes(4) + rng.randbytes(4), rng.randbytes(5), None][(n + variant + len(decoys)) % 6]
    d = layout.materialise(w.sub('dd'), blocks, placement, rng, coin=coin, h0=h0, decoys=decoys, extra_file=obs['extra'], xor_key=xk)
    if variant == 1 and rng.random() < 0.35:
        # blk files kept on other storage and linked into the directory (absolute symbolic links)
        cold = d.path + '-cold-storage'
        os.makedirs(cold)
        for f in sorted(os.listdir(d.path)):
            if f.startswith('blk') and f.endswith('.dat') and f[3:-4].isdigit() and rng.random() < 0.7 and not os.path.islink(os.path.join(d.path, f)):
                os.rename(os.path.join(d.path, f), os.path.join(cold, f))
                os.symlink(os.path.join(cold, f), os.path.join(d.path, f))
    r = layout.run_csv(w, d, coin, obs['start'], obs['end'], h0=h0)
    probs = []
    if r.rc != obs['exit']:
        probs.append('exit status %d, specification says %d: %s' % (r.rc, obs['exit'], r.stderr[-300:]))
    else:
        exp = layout.expected_csv(blocks, obs['ids'], coin, h0)
        probs += layout.compare_csv(r, exp, h0 + obs['start'], h0 + obs['heights'][-1])
    return probs, r, d


def main(ck, tier, w):
    quick = tier == 'quick'
    cfg = 'MC_Layout_q' if quick else 'MC_Layout_t'
    res = run.tlc('MC_Layout', cfg, workers=8, timeout=1500)
    ck.add_tlc(res, cfg)
    ck.require_actions(res, ['Start', 'ScanRecord', 'SelectChain', 'Open', 'SeekRead', 'CloseIfLast', 'Deliver'], cfg)
    vres = run.tlc('VarInt', 'VarInt_q' if quick else 'VarInt_t', workers=4, timeout=900)
    ck.add_tlc(vres, 'VarInt')
    seed = run.seed()
    obs_list = res.replay
    if not quick and len(obs_list) > 6000:
        random.Random(seed).shuffle(obs_list)
        ck.cov['replay_sampled_from'] = len(obs_list)
        obs_list = obs_list[:6000]
    ck.cov['exhaustive'] = quick or 'replay_sampled_from' not in ck.cov
    ck.cov['rule'] = ('every injective placement of the chain into files x slots (TLC), each concretised twice with different '
                      'physical parameters; non-trivial = layout where physical order differs from height order or spans >1 file')

    def one(item):
        k, obs = item
        out = []
        for variant in (0, 1):
            rng = random.Random('%d-%d-%d' % (seed, k, variant))
            coin = rng.choice(['bitcoin', 'litecoin', 'testnet3', 'dogecoin']) if variant else 'bitcoin'
            h0 = rng.choice([0, 0, 126, 16510, 2113662]) if variant else 0
            out.append(replay(w, obs, rng, coin, h0, variant) + (coin, h0))
        return obs, out
    for obs, outs in chains.pmap(one, list(enumerate(obs_list))):
        lay = [(p['file'], p['slot']) for p in obs['lay']]
        if lay != sorted(lay) or len({p[0] for p in lay}) > 1:
            ck.distinct(tuple(lay) + (obs['start'], obs['end'], obs['decoy']))
        for probs, r, d, coin, h0 in outs:
            ck.evals()
            ck.traces()
            ck.sample({'layout': obs['lay'], 'range': [obs['start'], obs['end']], 'decoys': obs['decoy'], 'coin': coin,
                       'first_height': h0, 'file_numbers': {str(k): v for k, v in d.fileno.items()}})
            if probs:
                ck.violation('; '.join(probs), {'scenario': obs, 'coin': coin, 'first_height': h0,
                                                'file_numbers': {str(k): v for k, v in d.fileno.items()},
                                                'observed': r.brief(), 'tags': []})

    # VarInt beyond TLC's integers: the real decoder against the encoder
    rng = random.Random(seed + 3)
    vals = [0, 1, 127, 128, 16511, 16512, 2113663, 2113664, 270549119, 270549120, 2 ** 32 - 1, 2 ** 32, 2 ** 63, 2 ** 64 - 1]
    vals += [rng.getrandbits(rng.randrange(1, 65)) for _ in range(2000 if quick else 50000)]
    lines = [(btc.core_varint(v) + rng.randbytes(rng.randrange(0, 3))).hex() for v in vals]
    rc, outs, err = run.run_driver('varint', lines)
    bad = [(v, o) for v, o, ln in zip(vals, outs, lines)
           if not (isinstance(o, dict) and o.get('value') == str(v) and o.get('used') == len(btc.core_varint(v)))]
    ck.evals(len(vals))
    if len(outs) != len(vals):
        raise run.ToolError('varint driver answered %d of %d lines' % (len(outs), len(vals)))
    for v, o in bad[:5]:
        ck.violation('read_varint(%s) = %s, encoder says %d' % (btc.core_varint(v).hex(), o, v), {'value': v, 'observed': o, 'tags': []})

    # T: random big layouts, traces validated
    jobs = []
    for i in range(5 if quick else 30):
        r0 = random.Random('%d-T-%d' % (seed, i))
        n = r0.choice([40, 120] if quick else [60, 300, 900])
        nf = r0.choice([1, 2, 7, 40] if quick else [1, 3, 25, 150, 400])
        jobs.append((n, min(nf, n), r0.choice(['disjoint', 'interleaved', 'reversed', 'random']), r0))

    def tjob(j):
        n, nf, mode, r0 = j
        blocks = chains.std_chain(n)
        pl = layout.random_placement(r0, n, nf, mode)
        # one block of every second run lies beyond the 4 GiB mark of a sparse blk file (offsets wider than 32 bit)
        big = (r0.randrange(n), r0.choice([2 ** 32, 2 ** 32 + 9, 5 * 2 ** 30 + 13, 2 ** 33 + 1]) + r0.randrange(1000)) if r0.random() < 0.5 or nf == 1 else None
        d = layout.materialise(w.sub('dd'), blocks, pl, r0, extra_file=True, big_offset=big,
                               fileno={f: f * 3 + 1 for f in range(nf)} if nf > 8 else None)
        tr = w.sub('trace')
        r = layout.run_csv(w, d, 'bitcoin', 0, None, trace=tr)
        probs = []
        if r.rc != 0:
            probs.append('exit status %d: %s' % (r.rc, r.stderr[-200:]))
        else:
            probs += layout.compare_csv(r, layout.expected_csv(blocks, range(n), 'bitcoin'), 0, n - 1)
        return j, probs, r, tr
    ran = chains.pmap(tjob, jobs, 8)
    verdicts = tracecheck.validate_many([x[3] for x in ran], batch=2)
    for (j, probs, r, tr), v in zip(ran, verdicts):
        if not v['accepted']:
            probs.append('trace rejected: %s at event %s %s' % (v['reason'], v['rejected_at'], v['event'] or ''))
        ck.traces()
        ck.evals()
        ck.distinct(('T',) + j[:3])
        if probs:
            ck.violation('; '.join(probs), {'scenario': {'blocks': j[0], 'files': j[1], 'mode': j[2]}, 'observed': r.brief(),
                                            'trace_verdict': v, 'tags': []})
    # ---- blocks of identical size, unpadded, in random physical order over a few files (block h+1 often starts in another file
    # at the very offset where block h ended); and one chain interleaved over 600 files that are all open at the same time
    jobs = [('equal', i) for i in range(4 if quick else 24)] + [('many', 0)]

    def xjob(j):
        kind, i = j
        r0 = random.Random('%d-c03-%s-%d' % (run.seed(), kind, i))
        if kind == 'equal':
            n, nf = 50, r0.choice([2, 3, 5])
            blocks = datadir.linear_chain(n, txs_fn=lambda h: [btc.coinbase(h, btc.p2pkh(h.to_bytes(4, 'big') * 5))])
            pl = layout.random_placement(r0, n, nf, 'random')
            d = layout.materialise(w.sub('dd'), blocks, pl, r0, pad=False, fileno={f: f for f in range(nf)}, namer=lambda k: 'blk%05d.dat' % k)
            r = layout.run_csv(w, d, 'bitcoin', 0, None)
        else:
            nf = 600
            n = 2 * nf
            blocks = datadir.linear_chain(n, txs_fn=lambda h: [btc.coinbase(h, btc.p2pkh(h.to_bytes(4, 'big') * 5))])
            pl = layout.random_placement(r0, n, nf, 'interleaved')
            d = layout.materialise(w.sub('dd'), blocks, pl, r0, fileno={f: f for f in range(nf)}, namer=lambda k: 'blk%05d.dat' % k)
            r = layout.run_csv(w, d, 'bitcoin', 0, None, nofile=4096)
        probs = ['exit status %d: %s' % (r.rc, r.stderr[-300:])] if r.rc != 0 else layout.compare_csv(r, layout.expected_csv(blocks, range(n), 'bitcoin'), 0, n - 1)
        return j, nf, probs, r
    for j, nf, probs, r in chains.pmap(xjob, jobs, 6):
        ck.evals()
        ck.distinct(('x',) + j)
        if probs:
            ck.violation('%s layout over %d files: %s' % ('equal-size unpadded random' if j[0] == 'equal' else 'interleaved (all files open at once)', nf, '; '.join(probs[:3])),
                         {'layout': j[0], 'files': nf, 'observed': r.brief(), 'tags': []})
    ck.assumptions += ['index records are those of a consistent Bitcoin Core block index (one record per block hash)',
                       'blk file numbers up to 2^63, offsets below 4 GiB in quick (one sparse multi-GiB offset in thorough)']
