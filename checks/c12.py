"""C12 - AuxPoW sections are skipped exactly, leaving block hash and txs unaffected (see c01.py: same model Wire.tla)."""
from checks import c01


def main(ck, tier, w):
    c01.main(ck, tier, w, pid='C12')
