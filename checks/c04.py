"""C04 - only the active chain is delivered; stale, failed and header-only records never are.

M: CoreIndex.tla (TLC: every history of a Bitcoin-Core-like node with <= N blocks: headers, data, activation, failed
   validation, reorganisation) with SelectsActive = "the parser's selection rule (ChainSel.tla) returns exactly the
   node's active chain"; MC_Fork: the run machine BlockParser.tla over those indexes x 4 key orders (OnlyActive, Linked)
R: each distinct index is concretised (real blocks for every record with data, header-only records without file fields,
   failure flags) in two hash orders (competitors sort before / after the active blocks) and run through all callbacks
T: the traces of those runs are validated: SelectChain on the logged records must give the logged retained records
"""
import json
import os
import random

from lib import btc, chains, datadir, ref, run, tracecheck


def build_index(w, rec, variant, coin='bitcoin'):
    """rec: {'recs': [...], 'tip', 'active': [...]}; variant 0: competitors' hashes sort after the active ones, 1: before"""
    recs = {r['id']: r for r in rec['recs']}
    active = set(rec['active'])
    blocks = {}
    d = datadir.DataDir(w.sub('dd'), coin)
    for b in sorted(recs, key=lambda x: (recs[x]['h'], x)):
        r = recs[b]
        prev = b'\0' * 32 if b == 0 else blocks[r['prev']]['hash']
        txs = [btc.coinbase(r['h'], None, extra=b'blk%d' % b,
                            outs=[{'val': 50 * 10 ** 8 + b, 'spk': btc.p2pkh(btc.hash160(b'fork-addr-%d' % b))},
                                  {'val': 0, 'spk': b'\x6a' + btc.push(b'id%d' % b)}])]
        hi = (b in active) == (variant == 1)
        if b == 0:
            ghdr, gtxs = btc.genesis_block(coin)       # the real genesis block, so that --verify can be on
            blocks[0] = {'hdr': ghdr, 'hash': btc.sha256d(ghdr), 'txs': gtxs, 'raw': btc.ser_block(ghdr, gtxs)}
            continue
        blocks[b] = chains.grind(prev, txs, 1231006505 + 600 * r['h'] + b, 1, lambda x: (x[0] >= 0x80) == hi, start=b * 1000)
    for b, r in recs.items():
        blk = blocks[b]
        status = r['valid']
        fileno = b % 2
        off = 0
        if r['data']:
            status |= btc.HAVE_DATA
            off = d.place(fileno, blk['raw'])
            if r['valid'] == 5:
                status |= btc.HAVE_UNDO
        if r['failed']:
            pf = b != 0 and recs[r['prev']]['failed']
            status |= btc.FAILED_CHILD if pf else btc.FAILED_VALID
        if (b * 7 + variant) % 3 == 0:
            status |= btc.OPT_WITNESS
        # nTx > 0 once the transactions were received, also when the data has been pruned since
        d.record(blk['hdr'], r['h'], status, 1 if r['data'] or r['valid'] >= 3 else 0, fileno, off, undo=off + 1000)
    if not d.files:
        d.raw(0, b'')
    d.core_extras()
    d.write()
    return d, blocks


def main(ck, tier, w):
    quick = tier == 'quick'
    seed = run.seed()
    cfg = 'CoreIndex_q' if quick else 'CoreIndex_t'
    res = run.tlc('CoreIndex', cfg, workers=8, timeout=1800)
    ck.add_tlc(res, cfg)
    ck.require_actions(res, ['AcceptHeader', 'AcceptBlock', 'DisconnectToFork', 'ConnectOk', 'ConnectFail', 'Prune', 'Invalidate'], cfg)
    uniq = {}
    for r in res.replay:
        r['recs'] = sorted(r['recs'], key=lambda x: x['id'])
        uniq.setdefault(json.dumps(r, sort_keys=True), r)
    forks = list(uniq.values())
    rng = random.Random(seed)
    rng.shuffle(forks)
    # M2: the run machine over the indexes (all key orders)
    sub = forks[:250 if quick else 900]
    fpath = os.path.join(w.dir, 'forks.ndjson')
    with open(fpath, 'w') as f:
        for r in sub:
            f.write(json.dumps(r) + '\n')
    fres = run.tlc('MC_Fork', 'MC_Fork', workers=8, timeout=2400, env={'FORKS': fpath})
    ck.add_tlc(fres, 'MC_Fork(%d indexes x 4 key orders)' % len(sub))
    ck.require_actions(fres, ['ScanRecord', 'SelectChain', 'Verify', 'Deliver'], 'MC_Fork')

    # deeper histories (11 non-genesis blocks) from seeded TLC simulation of the same node model
    sres = run.tlc('CoreIndex', 'CoreIndex_sim', workers=4, timeout=600, simulate=150 if quick else 1500, depth=45, coverage=False)
    ck.add_tlc(sres, 'CoreIndex_sim (simulation, N=11)')
    deep = {}
    for r in sres.replay:
        r['recs'] = sorted(r['recs'], key=lambda x: x['id'])
        if len(r['recs']) >= 7:
            deep.setdefault(json.dumps(r, sort_keys=True), r)
    deep = list(deep.values())
    rng.shuffle(deep)
    ck.cov['deep_histories_from_simulation'] = len(deep)

    def nontrivial(r):
        act = set(r['active'])
        return any(x['id'] not in act and x['data'] for x in r['recs'])
    rsub = [r for r in forks if nontrivial(r)][:200 if quick else 2500] + [r for r in forks if not nontrivial(r)][:30 if quick else 200] \
        + [r for r in deep if nontrivial(r)][:80 if quick else 800]
    ck.cov['rule'] = ('every history of a node with <= %d non-genesis blocks (TLC, exhaustive: %d judged states, %d distinct '
                      'indexes); %d of them replayed on real data directories in two hash orders; non-trivial = index with at '
                      'least one competitor block that has data') % (4 if quick else 5, len(res.replay), len(forks), len(rsub))
    ck.cov['exhaustive'] = False
    ck.cov['judged_states'] = len(res.replay)
    ck.cov['distinct_indexes'] = len(forks)

    def one(item):
        i, r = item
        out = []
        for variant in (0, 1):
            d, blocks = build_index(w, r, variant)
            r0 = random.Random('%d-%d-%d' % (seed, i, variant))
            cb = r0.choice(['csvdump', 'csvdump', 'unspentcsvdump', 'balances', 'simplestats', 'opreturn'])
            tr = w.sub('trace')
            dump = w.mk('out') if cb in ('csvdump', 'unspentcsvdump', 'balances') else None
            # the selection must not depend on the range: --start anywhere from 0 to two above the active tip, --end sometimes
            tip = len(r['active']) - 1
            st = r0.choice([0, 0] + list(range(0, tip + 3)))
            en = r0.choice([None, None, None, st + 1 + r0.randrange(0, 3)])
            last = min(tip, en) if en is not None else tip
            res_ = run.run_parser(d.path, cb, dump=dump, trace=tr, skip='spend,create,eval,dump_row,bal_row', verify=r0.random() < 0.5,
                                  start=st or None, end=en)
            chain = [(h, blocks[b]) for h, b in enumerate(r['active']) if st <= h <= last]
            lastname = last if st <= last else st - 1
            probs = []
            if res_.rc != 0:
                probs.append('exit status %d: %s' % (res_.rc, res_.stderr[-300:]))
            elif cb == 'csvdump':
                exp, _ = ref.csv_expected(chain, 'bitcoin')
                for f in ('blocks', 'transactions', 'tx_in', 'tx_out'):
                    name = '%s-%d-%d.csv' % (f, st, lastname)
                    if res_.files.get(name) != exp[f]:
                        got = chains.csv_col(res_.files.get(name, b''), 0) if f == 'blocks' else None
                        probs.append('%s is not the active chain (delivered hashes %s, active %s)' % (
                            name, got, [btc.hexrev(b['hash']) for _, b in chain] if f == 'blocks' else ''))
                        break
            elif cb == 'unspentcsvdump':
                rows = set(res_.files.get('unspent-%d-%d.csv' % (st, lastname), b'').decode('utf-8', 'replace').splitlines()[1:])
                if rows != ref.unspent_rows(ref.utxo_expected(chain, 'bitcoin')):
                    probs.append('unspent rows are not those of the active chain')
            elif cb == 'balances':
                rows = set(res_.files.get('balances-%d-%d.csv' % (st, lastname), b'').decode('utf-8', 'replace').splitlines()[1:])
                if rows != ref.balances_rows(ref.utxo_expected(chain, 'bitcoin')):
                    probs.append('balances rows are not those of the active chain')
            elif cb == 'simplestats':
                s = chains.parse_stats(res_.stdout)
                e = ref.stats_expected(chain, 'bitcoin')
                if (s.get('blocks'), s.get('txs'), s.get('volume')) != (e['blocks'], e['txs'], e['volume']):
                    probs.append('simplestats counts %s differ from the active chain\'s %s' % (
                        (s.get('blocks'), s.get('txs'), s.get('volume')), (e['blocks'], e['txs'], e['volume'])))
            elif cb == 'opreturn':
                if chains.strip_log(res_.out) != b''.join(ref.opreturn_expected(chain, 'bitcoin')):
                    probs.append('opreturn lines are not those of the active chain')
            out.append((variant, cb, probs, res_, tr, (st, en)))
        return r, out
    ran = chains.pmap(one, list(enumerate(rsub)))
    traces = [t for _, out in ran for (_, _, _, _, t, _) in out]
    verdicts = iter(tracecheck.validate_many(traces, batch=60))
    for r, out in ran:
        if nontrivial(r):
            ck.distinct(json.dumps(r['recs'], sort_keys=True) + str(r['tip']))
        ck.sample({'records': r['recs'], 'active_chain': r['active']}, limit=4)
        for variant, cb, probs, res_, tr, rg in out:
            v = next(verdicts)
            ck.evals()
            ck.traces()
            if not v['accepted']:
                probs.append('trace rejected: %s at event %s %s' % (v['reason'], v['rejected_at'], v['event'] or ''))
            if probs:
                ck.violation('; '.join(probs), {'index': r, 'hash_order': 'competitors sort %s the active blocks' % ('before' if variant else 'after'),
                                                'callback': cb, 'start_end': rg, 'observed': res_.brief(), 'trace_verdict': v, 'tags': []})
    # ---- an index of realistic size: a node stopped during initial block download (a header-only block right above the tip with
    # hundreds of stored but unconnectable blocks on top of it) plus a long reorged-out branch - thousands of candidates, most of
    # them ranking above the real tip; repeated with several pool sizes (the choice of the tip is no race)
    A, S0, S1, TOP = (400, 101, 300, 2200) if quick else (1000, 101, 800, 3000)
    recs = [{'id': h, 'h': h, 'prev': h - 1, 'data': True, 'valid': 5, 'failed': False} for h in range(A + 1)]
    prev = S0 - 1
    for h in range(S0, S1 + 1):
        recs.append({'id': 10000 + h, 'h': h, 'prev': prev, 'data': True, 'valid': 5, 'failed': False})
        prev = 10000 + h
    recs.append({'id': 20000, 'h': A + 1, 'prev': A, 'data': False, 'valid': 2, 'failed': False})
    prev = 20000
    for k in range(TOP):
        recs.append({'id': 20001 + k, 'h': A + 2 + k, 'prev': prev, 'data': True, 'valid': 3, 'failed': False})
        prev = 20001 + k
    big = {'recs': recs, 'tip': A, 'active': list(range(A + 1))}
    bd, bblocks = build_index(w, big, 1)
    want = [btc.hexrev(bblocks[h]['hash']) for h in range(A + 1)]

    def brun(i):
        import shutil
        cl = w.sub('cl')
        shutil.copytree(bd.path, cl)
        r = run.run_parser(cl, 'csvdump', dump=w.mk('out'), threads=[4, 8, 16, 3, 64, None][i % 6], timeout=300)
        shutil.rmtree(cl, ignore_errors=True)
        return i, r
    for i, r in chains.pmap(brun, range(12 if quick else 24), 4):
        ck.evals()
        got = chains.csv_col(next((v for k, v in r.files.items() if k.startswith('blocks-')), b''), 0)
        ck.distinct(('big-ibd', i % 6))
        if r.rc != 0 or got != want or r.listing != sorted('%s-0-%d.csv' % (f, A) for f in ('blocks', 'transactions', 'tx_in', 'tx_out')):
            ck.violation('index of %d records (active chain 0..%d, reorged-out branch %d..%d, header-only block at %d with %d stored blocks on top), run %d: exit %d, '
                         '%d blocks delivered up to %s, dump folder %s; first differing height %s' % (
                             len(recs), A, S0, S1, A + 1, TOP, i, r.rc, len(got), got[-1:] and len(got) - 1, r.listing,
                             next((h for h in range(min(len(got), len(want))) if got[h] != want[h]), None)),
                         {'records': len(recs), 'run': i, 'observed': r.brief(), 'tags': []})

    ck.assumptions += ['Quiescent: the node was not stopped in the middle of a chain activation',
                       'UniqueBestTip: no second fully validated block ties with the active tip (the block index alone cannot '
                       'tell them apart; Core keeps the tip in the chainstate database)',
                       'all blocks carry equal work, so most-work = highest']
