"""C10 - exit status 0 means complete, final-named output; any failure leaves none; never a partial final file.

M: MC_Fault (TLC: chain x file callback x output limit L rows (every L) x unreadable block at any height x SIGKILL in every
   state): FinalNeverPartial, ExitZeroComplete, FailureLeavesNone, FaultFails, LimitFails + termination under fairness
R: fault enumeration on the real binary: input faults (file removed / emptied / truncated at many bytes / offset past EOF) at
   every height; RLIMIT_FSIZE sweeps on small outputs (every few bytes) and on a multi-MB output (mid-run 4 MB flushes
   fail); crash at every event boundary (RBP_VERIF_ABORT_AT) and real SIGKILLs; judged by the specification's invariants
T: fault-free and aborted runs are validated against BlockParser.tla: a rename with unflushed rows is rejected
"""
import os
import random
import resource
import re
import shutil
import signal
import subprocess
import time

from lib import btc, chains, datadir, ref, run, tracecheck

FILECB = ('csvdump', 'unspentcsvdump', 'balances')


def final_names(cb, start, last):
    base = {'csvdump': ['blocks', 'transactions', 'tx_in', 'tx_out'], 'unspentcsvdump': ['unspent'], 'balances': ['balances']}[cb]
    return ['%s-%d-%d.csv' % (b, start, last) for b in base]


def canon(cb, files):
    """content up to row order for the set-valued outputs"""
    if cb == 'csvdump':
        return dict(files)
    return {k: (v.splitlines()[:1], sorted(v.splitlines()[1:])) for k, v in files.items()}


def judge(cb, r, good, names, fault_in_range=None, err_h=None):
    """the specification's invariants on a real post-mortem state. good: files of the undisturbed run"""
    probs = []
    finals = [f for f in r.listing if f.endswith('.csv')]
    tmps = [f for f in r.listing if f.endswith('.tmp')]
    for f in finals:                                    # FinalNeverPartial
        if f not in good:
            probs.append('unexpected final-named file %s' % f)
        elif canon(cb, {f: r.files[f]}) != canon(cb, {f: good[f]}):
            probs.append('final-named %s holds %d bytes, the complete file has %d (partial or wrong content)' % (
                f, len(r.files[f]), len(good[f])))
    if r.rc == 0:                                       # ExitZeroComplete
        if sorted(finals) != sorted(names):
            probs.append('exit 0 but final-named files are %s, expected %s' % (finals, names))
        if tmps:
            probs.append('exit 0 but %s remain' % tmps)
    elif r.rc in (1, 101) or r.rc < 0 and -r.rc not in (signal.SIGKILL, signal.SIGABRT):   # FailureLeavesNone
        if finals:
            probs.append('exit %d but final-named files were left: %s' % (r.rc, finals))
    if fault_in_range:                                  # FaultFails
        if r.rc == 0:
            probs.append('exit 0 although block %d cannot be read' % err_h)
        else:
            m = re.search(r'Error at height (\d+)', r.stderr)
            if not m or int(m.group(1)) != err_h:
                probs.append('failing height not reported (expected "Error at height %d"): %s' % (err_h, r.stderr[-200:]))
    return probs


def build(w, n, coin='bitcoin', txs_fn=chains.std_txs, nfiles=2, xor_key=None, plain=False):
    blocks = chains.std_chain(n, coin, txs_fn=txs_fn)
    d = datadir.DataDir(w.sub('dd'), coin)
    offs = []
    for h, b in enumerate(blocks):
        off = d.place(h % nfiles, b['raw'])
        offs.append((h % nfiles, off))
        d.record(b['hdr'], h, datadir.ACTIVE, len(b['txs']), h % nfiles, off)
    d.core_extras()
    d.write(xor_key=xor_key, plain=plain)
    d.block_offs = offs
    return d, blocks


def main(ck, tier, w):
    quick = tier == 'quick'
    seed = run.seed()
    cfg = 'MC_Fault_q' if quick else 'MC_Fault_t'
    res = run.tlc('MC_Fault', cfg, workers=8, timeout=3000)
    ck.add_tlc(res, cfg)
    ck.require_actions(res, ['Kill', 'FlushSome', 'RenameSome', 'ProduceSummary', 'SeekRead', 'Open', 'Deliver'], cfg)
    ck.level = 'model_checking'
    rng = random.Random(seed)
    n = 6
    d, blocks = build(w, n, plain=True)
    # the same chain obfuscated: every input fault below is injected into both (what is missing from a file is missing, whatever
    # the bytes that are there mean)
    dxor, _ = build(w, n, xor_key=bytes.fromhex('a1b2c3d4e5f60718'))
    # one undisturbed run per callback (also warms the index so that LevelDB's own files are in their final form)
    good = {}
    for cb in FILECB:
        r = run.run_parser(d.path, cb, dump=w.mk('out'))
        if r.rc != 0:
            ck.violation('undisturbed run fails: ' + r.stderr[-300:], {'callback': cb, 'observed': r.brief(), 'tags': []})
            return
        good[cb] = r.files
    # exit 0 => complete output, also when an earlier failed run left (longer) tmp files behind in the same folder
    for cb in FILECB:
        dump = w.mk('out')
        for name, data in good[cb].items():
            with open(os.path.join(dump, name.split('-')[0] + '.csv.tmp'), 'wb') as f:
                f.write(data * 3 + b'partial row without newline')
        # ... and tmp files that failed runs of the OTHER callbacks left there: they are not this run's, it neither publishes nor
        # touches them
        foreign = {}
        for other in FILECB:
            if other != cb:
                for name in good[other]:
                    foreign[name.split('-')[0] + '.csv.tmp'] = b'partial output of a failed ' + other.encode() + b' run\n' * 7
        for name, data in foreign.items():
            with open(os.path.join(dump, name), 'wb') as f:
                f.write(data)
        r = run.run_parser(d.path, cb, dump=dump)
        ck.evals()
        mine = {k: v for k, v in r.files.items() if k not in foreign}
        probs = []
        for name, data in foreign.items():
            if r.files.get(name) != data:
                probs.append('tmp file %s of another callback was %s' % (name, 'removed or renamed' if name not in r.files else 'modified'))
        r.listing = [f for f in r.listing if f not in foreign]
        r.files = mine
        probs += judge(cb, r, good[cb], final_names(cb, 0, n - 1))
        if probs:
            ck.violation('run into a folder holding tmp files of an earlier failed run (%s): %s' % (cb, '; '.join(probs)),
                         {'callback': cb, 'observed': r.brief(), 'tags': []})

    # the reader of standard output goes away (`rusty-blockparser ... | head`): whatever the exit status then is, 0 still means
    # complete final-named output and anything else means none
    for cb in FILECB:
        for vb in (0, 2):
            dd = w.sub('cl')
            shutil.copytree(d.path, dd)
            r = run.run_parser(dd, cb, dump=w.mk('out'), verbose=vb, stdout_gone=True)
            ck.evals()
            ck.distinct(('epipe', cb, vb))
            probs = judge(cb, r, good[cb], final_names(cb, 0, n - 1))
            if probs:
                ck.violation('%s with the reader of standard output gone (verbosity %d): %s' % (cb, vb, '; '.join(probs)),
                             {'callback': cb, 'observed': r.brief(), 'tags': []})

    ck.cov['rule'] = ('faults enumerated on the real binary: (height x kind) input faults, RLIMIT_FSIZE sweep, abort at every '
                      'event boundary, SIGKILL at random delays; each post-mortem state judged by the invariants checked in '
                      'MC_Fault; non-trivial = distinct (callback, fault kind, fault point)')

    # ---- input faults ---------------------------------------------------------------------------
    cases = []
    for h in range(n):
        fno, off = d.block_offs[h]
        size = len(blocks[h]['raw'])
        cuts = sorted({off - 8, off - 5, off - 4, off - 1, off, off + 1, off + 79, off + 80, off + 81, off + size - 1}
                      | {off + rng.randrange(size) for _ in range(2 if quick else 12)})
        for cb in FILECB:
            for s in ((0,) if quick else (0, 1, h)):
                if s > h:
                    continue
                cases.append((cb, h, s, 'removed', None))
                cases.append((cb, h, s, 'emptied', None))
                cases.append((cb, h, s, 'past_eof', None))
                if cb == 'csvdump' or not quick:
                    cases.append((cb, h, s, 'past_eof', 2 ** 32 * (1 + h % 3)))       # the block's own offset plus k * 2^32: still beyond the end of the file
                for c in (cuts if cb == 'csvdump' or not quick else cuts[:3]):
                    cases.append((cb, h, s, 'truncated', c))

    cases = [c + (False,) for c in cases] + [c + (True,) for c in cases if c[2] == 0 and (c[0] == 'csvdump' or c[3] != 'truncated' or not quick)]

    def infault(c):
        cb, h, s, kind, cut, xored = c
        dd = w.sub('fd')
        shutil.copytree(dxor.path if xored else d.path, dd, symlinks=False)
        fno, off = d.block_offs[h]
        p = os.path.join(dd, 'blk%05d.dat' % fno)
        first_bad = h
        if kind == 'removed':
            os.unlink(p)
        elif kind == 'emptied':
            open(p, 'wb').close()
        elif kind == 'truncated':
            with open(p, 'r+b') as f:
                f.truncate(cut)
        elif kind == 'past_eof':
            # the record of height h points beyond the end of its file
            dx = datadir.DataDir(dd, 'bitcoin')
            dx.files = {}
            shutil.rmtree(os.path.join(dd, 'index'))
            kvs = dict(d.kvs)
            b = blocks[h]
            kvs[b'b' + b['hash']] = btc.index_record(1, h, datadir.ACTIVE, 1, fno, (os.path.getsize(p) + 8 + rng.randrange(100)) if cut is None else off + cut, 0, b['hdr'])
            from lib.ldb import write_leveldb
            write_leveldb(os.path.join(dd, 'index'), sorted(kvs.items()))
        # the first unreadable height of the range: all blocks of that file at or after the damage
        if kind in ('removed', 'emptied', 'truncated'):
            bad = [g for g in range(n) if d.block_offs[g][0] == fno and (kind != 'truncated' or d.block_offs[g][1] + len(blocks[g]['raw']) > cut)]
            bad = [g for g in bad if g >= s]
            first_bad = min(bad) if bad else None
        r = run.run_parser(dd, cb, dump=w.mk('out'), start=s or None)
        shutil.rmtree(dd, ignore_errors=True)
        if first_bad is None:
            probs = judge(cb, r, None, [], False) if False else []
        else:
            names = final_names(cb, s, n - 1)
            probs = judge(cb, r, {}, names, True, first_bad)
        return c, probs, r
    for c, probs, r in chains.pmap(infault, cases):
        ck.evals()
        ck.distinct(('in',) + c[:4] + ((c[4],) if c[0] == 'csvdump' else ()) + (c[5],))
        if probs:
            ck.violation('input fault %s at height %d (%s, start %d, cut %s, %s directory): %s' % (c[3], c[1], c[0], c[2], c[4], 'XOR-obfuscated' if c[5] else 'plain', '; '.join(probs)),
                         {'fault': {'callback': c[0], 'height': c[1], 'start': c[2], 'kind': c[3], 'cut': c[4], 'xor': c[5]}, 'observed': r.brief(), 'tags': []})
    ck.sample({'input_fault': {'callback': 'csvdump', 'height': 3, 'kind': 'truncated', 'cut_at_byte': cases[-1][4]}})

    # ---- output faults: file size limit ----------------------------------------------------------
    lcases = []
    for cb in FILECB:
        top = max(len(v) for v in good[cb].values())
        step = max(1, top // (40 if quick else 400))
        for L in sorted(set(range(0, top + 2 * step, step)) | {top - 1, top, top + 1}):
            lcases.append((cb, L))

    def clone(src):
        """private copy: LevelDB locks the index, so concurrent runs need their own directory"""
        dst = w.sub('cl')
        shutil.copytree(src, dst)
        return dst

    def outfault(c):
        cb, L = c
        dd = clone(d.path)
        r = run.run_parser(dd, cb, dump=w.mk('out'), fsize=L)
        shutil.rmtree(dd, ignore_errors=True)
        probs = judge(cb, r, good[cb], final_names(cb, 0, n - 1))
        need = max(len(v) for v in good[cb].values())
        if L < need and r.rc == 0:
            probs.append('exit 0 under a %d byte file size limit although an output file needs %d bytes' % (L, need))
        return c, probs, r
    for c, probs, r in chains.pmap(outfault, lcases):
        ck.evals()
        ck.distinct(('out',) + c)
        if probs:
            ck.violation('file size limit %d (%s): %s' % (c[1], c[0], '; '.join(probs)),
                         {'fault': {'callback': c[0], 'rlimit_fsize': c[1]}, 'observed': r.brief(), 'tags': []})
    ck.sample({'output_fault': {'callback': lcases[len(lcases) // 2][0], 'rlimit_fsize': lcases[len(lcases) // 2][1]}})

    # big output: the 4 MB writer buffers are flushed during the run, so a write fails in the middle of on_block
    def fat(h, coin):
        r0 = random.Random(h)
        return chains.std_txs(h, coin) + [{'ver': 1, 'ins': [{'txid': r0.randbytes(32), 'idx': i, 'sig': r0.randbytes(100), 'seq': 1}],
                                           'outs': [{'val': i, 'spk': btc.p2pkh(r0.randbytes(20))}], 'lock': 0} for i in range(900)]
    nb = 14 if quick else 30
    bd, bblocks = build(w, nb, txs_fn=fat)
    rg = run.run_parser(bd.path, 'csvdump', dump=w.mk('out'), timeout=120)
    bgood = rg.files
    if rg.rc != 0:
        raise run.ToolError('big undisturbed run failed: ' + rg.stderr[-200:])
    top = max(len(v) for v in bgood.values())
    ck.cov['big_output_bytes'] = {k: len(v) for k, v in bgood.items()}
    Ls = sorted({0, 4000000 - 1, 4000000, 4000001, top - 1, top} | {rng.randrange(top + 100000) for _ in range(6 if quick else 150)})

    def bigfault(L):
        dd = clone(bd.path)
        r = run.run_parser(dd, 'csvdump', dump=w.mk('out'), fsize=L, timeout=120)
        shutil.rmtree(dd, ignore_errors=True)
        probs = judge('csvdump', r, bgood, final_names('csvdump', 0, nb - 1))
        if L < top and r.rc == 0:
            probs.append('exit 0 under a %d byte limit although tx_in needs %d bytes' % (L, top))
        r.files = {k: b'' for k in r.files}     # do not keep megabytes per case
        return L, probs, r
    for L, probs, r in chains.pmap(bigfault, Ls, 6):
        ck.evals()
        ck.distinct(('bigout', L))
        if probs:
            ck.violation('file size limit %d on a %d byte output: %s' % (L, top, '; '.join(probs)),
                         {'fault': {'callback': 'csvdump', 'rlimit_fsize': L, 'largest_output': top}, 'observed': r.brief(), 'tags': []})

    # a write failure that goes away again (quota exceeded for a while, then space freed): the file size limit is lowered to 64
    # bytes while blocks 5..29 of 40 are dumped - 4 MB buffers are flushed in that window - and lifted before the end.  A failed write is
    # a failed run: rows cannot be dropped silently
    import subprocess
    import time as _t
    td_, _tb = build(w, 40, txs_fn=fat)          # 12 MB of tx_in rows: the 4 MB buffer is flushed around blocks 13 and 26
    tgood = run.run_parser(td_.path, 'csvdump', dump=w.mk('out'), timeout=300, release=False).files
    for rep in range(1 if quick else 3):
        dd = clone(td_.path)
        dump = w.mk('out')
        env = dict(os.environ, RBP_VERIF_STALL='5:2500,30:3500', RUST_BACKTRACE='0')

        def pre_():
            signal.signal(signal.SIGXFSZ, signal.SIG_IGN)
        pr = subprocess.Popen([run.BIN, '-d', dd, 'csvdump', dump], env=env, stdout=subprocess.PIPE, stderr=subprocess.PIPE, preexec_fn=pre_)
        _t.sleep(1.2)
        inf = resource.RLIM_INFINITY
        try:
            resource.prlimit(pr.pid, resource.RLIMIT_FSIZE, (64, inf))
            _t.sleep(3.3)
            resource.prlimit(pr.pid, resource.RLIMIT_FSIZE, (inf, inf))
        except (OSError, ProcessLookupError):
            pass
        try:
            out_, err_ = pr.communicate(timeout=120)
        except subprocess.TimeoutExpired:
            pr.kill()
            out_, err_ = pr.communicate()
        shutil.rmtree(dd, ignore_errors=True)
        listing = sorted(os.listdir(dump))
        finals = [f for f in listing if f.endswith('.csv')]
        ck.evals()
        ck.distinct(('transient', rep))
        if pr.returncode == 0:
            bad = [f for f in finals if open(os.path.join(dump, f), 'rb').read() != tgood.get(f)]
            if bad or sorted(finals) != sorted(tgood):
                ck.violation('csvdump with a write failure that went away again (limit of 64 bytes while blocks 5..29 were dumped): exit 0, final-named files %s, '
                             'differing from the undisturbed output: %s' % (finals, bad), {'observed': {'rc': 0, 'stderr': err_.decode('utf-8', 'replace')[-300:], 'listing': listing}, 'tags': []})
        elif finals:
            ck.violation('csvdump with a transient write failure: exit %d but final-named files were left: %s' % (pr.returncode, finals),
                         {'observed': {'rc': pr.returncode, 'listing': listing}, 'tags': []})

    # the same for the two UTXO dumps: more rows than the 4 MB writer buffer holds, so that on_complete itself issues large
    # direct writes and a limit can fall inside any of them
    def wide(h, coin):
        r0 = random.Random('wide%d' % h)
        return chains.std_txs(h, coin) + [{'ver': 1, 'ins': [{'txid': r0.randbytes(32), 'idx': 0, 'sig': b'', 'seq': 1}],
                                           'outs': [{'val': 1 + i, 'spk': b'\x76\xa9\x14' + r0.randbytes(20) + b'\x88\xac'} for i in range(40000)], 'lock': 0}]
    wd, wblocks = build(w, 3, txs_fn=wide)
    for cb in ('unspentcsvdump', 'balances'):
        rg = run.run_parser(wd.path, cb, dump=w.mk('out'), timeout=300)
        if rg.rc != 0:
            raise run.ToolError('wide undisturbed run failed: ' + rg.stderr[-200:])
        wgood = rg.files
        wtop = max(len(v) for v in wgood.values())
        ck.cov['big_output_bytes'].update({k: len(v) for k, v in wgood.items()})
        if wtop <= 4000000:
            raise run.ToolError('wide output of %s is only %d bytes' % (cb, wtop))
        Lw = sorted({4096, 3999999, 4000000, 4000001, wtop // 2, wtop - 1, wtop} | {rng.randrange(wtop) for _ in range(3 if quick else 60)})

        def widefault(L, cb=cb, wgood=wgood, wtop=wtop):
            dd = clone(wd.path)
            r = run.run_parser(dd, cb, dump=w.mk('out'), fsize=L, timeout=300)
            shutil.rmtree(dd, ignore_errors=True)
            probs = judge(cb, r, wgood, final_names(cb, 0, 2))
            if L < wtop and r.rc == 0:
                probs.append('exit 0 under a %d byte limit although the output needs %d bytes' % (L, wtop))
            r.files = {k: b'' for k in r.files}
            return L, probs, r
        for L, probs, r in chains.pmap(widefault, Lw, 6):
            ck.evals()
            ck.distinct(('wideout', cb, L))
            if probs:
                ck.violation('file size limit %d on the %d byte output of %s: %s' % (L, wtop, cb, '; '.join(probs)),
                             {'fault': {'callback': cb, 'rlimit_fsize': L, 'largest_output': wtop}, 'observed': r.brief(), 'tags': []})

    # ---- crash points: abort after every event; traces (prefixes) validated --------------------
    acases = []
    for cb in FILECB:
        tr = w.sub('trace')
        r = run.run_parser(d.path, cb, dump=w.mk('out'), trace=tr, skip='spend,create,eval,dump_row,bal_row')
        nev = len(r.events)
        pts = range(1, nev + 1) if not quick else sorted(set(range(1, nev + 1, 3)) | set(range(max(1, nev - 14), nev + 1)))
        acases += [(cb, k, nev) for k in pts]

    def crash(c):
        cb, k, nev = c
        tr = w.sub('trace')
        dd = clone(d.path)
        r = run.run_parser(dd, cb, dump=w.mk('out'), trace=tr, skip='spend,create,eval,dump_row,bal_row', abort_at=k)
        shutil.rmtree(dd, ignore_errors=True)
        probs = judge(cb, r, good[cb], final_names(cb, 0, n - 1))
        if r.rc not in (-signal.SIGABRT, 0):
            probs.append('unexpected exit status %d for an abort at event %d' % (r.rc, k))
        return c, probs, r, tr
    ran = chains.pmap(crash, acases)
    verdicts = tracecheck.validate_many([x[3] for x in ran], batch=50)
    for (c, probs, r, tr), v in zip(ran, verdicts):
        ck.evals()
        ck.traces()
        ck.distinct(('abort',) + c[:2])
        if not v['accepted']:
            probs.append('trace prefix rejected: %s at event %s %s' % (v['reason'], v['rejected_at'], v['event'] or ''))
        if probs:
            ck.violation('crash after event %d of %d (%s): %s' % (c[1], c[2], c[0], '; '.join(probs)),
                         {'fault': {'callback': c[0], 'abort_after_event': c[1]}, 'observed': r.brief(), 'trace_verdict': v, 'tags': []})
    ck.sample({'crash_point': {'callback': acases[-3][0], 'abort_after_event': acases[-3][1], 'events_in_run': acases[-3][2]}})

    # ---- real SIGKILL at random delays with a concurrent observer of the dump folder --------------
    def sigkill(i):
        r0 = random.Random('%d-kill-%d' % (seed, i))
        dump = w.mk('out')
        dd = clone(bd.path)
        args = [run.BIN, '-d', dd, 'csvdump', dump]
        p = subprocess.Popen(args, stdout=subprocess.DEVNULL, stderr=subprocess.DEVNULL)
        deadline = time.time() + r0.uniform(0.02, rg.dt * 1.1)
        probs = []
        seen_final = set()
        while time.time() < deadline and p.poll() is None:
            for f in os.listdir(dump):
                if f.endswith('.csv'):
                    seen_final.add(f)
                    try:
                        sz = os.path.getsize(os.path.join(dump, f))
                    except OSError:
                        continue
                    if f in bgood and sz != len(bgood[f]):
                        probs.append('observer saw final-named %s with %d of %d bytes while the run was alive' % (f, sz, len(bgood[f])))
            time.sleep(0.002)
        if p.poll() is None:
            p.send_signal(signal.SIGKILL)
        rc = p.wait()
        for f in os.listdir(dump):
            if f.endswith('.csv'):
                sz = os.path.getsize(os.path.join(dump, f))
                if f not in bgood or sz != len(bgood[f]):
                    probs.append('after SIGKILL final-named %s holds %d bytes (complete: %s)' % (f, sz, len(bgood.get(f, b''))))
        shutil.rmtree(dump, ignore_errors=True)
        shutil.rmtree(dd, ignore_errors=True)
        return i, rc, probs
    for i, rc, probs in chains.pmap(sigkill, range(12 if quick else 150), 4):
        ck.evals()
        ck.distinct(('sigkill', i))
        if probs:
            ck.violation('SIGKILL run %d (exit %d): %s' % (i, rc, '; '.join(sorted(set(probs))[:3])), {'fault': {'sigkill_run': i}, 'tags': []})
    # ---- start-up failures (MC_Startup): refused arguments, unwritable dump folder, missing data directory / index ----
    sres = run.tlc('MC_Fault', 'MC_Startup', workers=4, timeout=300)
    ck.add_tlc(sres, 'MC_Startup')
    ck.require_actions(sres, ['RejectArgs', 'CreateTmpFails', 'OpenStorageFails'], 'MC_Startup')

    def startup(obs):
        cb, st = obs['cb'], obs['startup']
        dd = clone(d.path)
        dump = w.sub('out')
        filecb = cb in FILECB
        kw = {}
        if st == 'badrange':
            kw = {'start': 3, 'end': 2}
        if st == 'nodir':
            shutil.rmtree(dd)
        if st == 'noindex':
            shutil.rmtree(os.path.join(dd, 'index'))
            with open(os.path.join(dd, 'index'), 'w') as f:
                f.write('not a database')
        if st != 'nodump':
            os.makedirs(dump)
        r = run.run_parser(dd, cb, dump=dump if filecb else None, mkdump=False, **kw)
        shutil.rmtree(dd, ignore_errors=True)
        probs = []
        cls = 0 if r.rc == 0 else 1 if r.rc in (1, 2, 101) else r.rc
        if cls != obs['exit']:
            probs.append('exit status %d, specification says class %d: %s' % (r.rc, obs['exit'], r.stderr[-200:]))
        finals = [f for f in r.listing if f.endswith('.csv')]
        tmps = [f for f in r.listing if f.endswith('.tmp')]
        if obs['exit'] != 0 and finals:
            probs.append('final-named files after a failed start-up: %s' % finals)
        if filecb and len(tmps) != obs['tmps'] and obs['exit'] != 0:
            probs.append('%d tmp files exist, specification says %d' % (len(tmps), obs['tmps']))
        if obs['exit'] != 0 and any(e['ev'] == 'deliver' for e in r.events):
            probs.append('blocks delivered although start-up failed')
        return obs, probs, r
    for obs, probs, r in chains.pmap(startup, sres.replay):
        ck.evals()
        ck.traces()
        ck.distinct(('startup', obs['cb'], obs['startup']))
        if probs:
            ck.violation('start-up condition %s with %s: %s' % (obs['startup'], obs['cb'], '; '.join(probs)),
                         {'scenario': obs, 'observed': r.brief(), 'tags': []})
    ck.assumptions += ['input-fault scenarios keep at least one other readable blk file (with none the program stops before any '
                       'height exists to report)', 'RLIMIT_FSIZE with SIGXFSZ ignored stands for "a write fails at byte L" (EFBIG)',
                       'rename failures are outside the statement']
