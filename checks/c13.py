"""C13 - output depends only on data directory and options, never on scheduling or reruns.

M: Par.tla (TLC: two nested indexed collects on a work-stealing pool, every interleaving): OrderPreserved;
   DumpDir.tla (every pre-state of the dump folder): DumpIndependent, OthersUntouched
R: blocks with up to 300 transactions / 200 outputs run with RAYON_NUM_THREADS in {1,2,3,8,16,64}, seeded jitter inside the
   parallel closures, CPU contention (the runs themselves run 16 at a time): csvdump files and opreturn lines byte-identical
   (and equal to the reference), simplestats figures identical, unspent/balances row sets identical; sequences of runs sharing
   one dump folder (stale *.tmp, earlier results) and one data directory: blk*.dat / xor.dat checksums and the index's
   key/value content unchanged (second run reopens what the first rewrote)
T: recorded evaluation orders (hook) validated against Par.tla; the evidence counts distinct orders and worker threads seen
"""
import hashlib
import os
import random
import shutil

from lib import btc, chains, datadir, ref, run, tracecheck

THREADS = [1, 2, 3, 8, 16, 64, 0, 'pin']       # 0: rayon's default spelled out; 'pin': variable unset, process confined to one CPU


def big_chain(r0, coin, nblk=3):
    POOL = [r0.randbytes(20) for _ in range(3)]
    POOLK = b'\x03' + r0.randbytes(32)

    def txs_fn(h, c):
        ntx = (1500 if h == 1 else r0.choice([1, 2, 40, 300])) if h else 3        # (one block beyond 1024 transactions of unequal sizes)
        txs = [btc.coinbase(h, None, outs=[{'val': 50 * 10 ** 8, 'spk': btc.p2pkh(r0.randbytes(20))}, {'val': 0, 'spk': b'\x6a' + btc.push(b'h%d' % h)}])]
        for k in range(ntx - 1):
            nout = r0.choice([1, 2, 3, 200]) if k % 37 == 0 else r0.randrange(1, 4)
            # a small pool of hashes under all templates: neighbouring outputs often carry the same 20 bytes in different roles
            outs = [{'val': r0.randrange(10 ** 9), 'spk': r0.choice([btc.p2pkh(r0.randbytes(20)), btc.p2sh(r0.randbytes(20)), b'\x6a' + btc.push(b'o%d-%d' % (k, j)),
                                                                  btc.p2pk(b'\x02' + r0.randbytes(32)), b'\x00\x14' + r0.randbytes(20)]
                                                                 + [f(x) for x in POOL[:2] for f in (btc.p2pkh, btc.p2sh)] * 2
                                                                 + [btc.p2pk(POOLK), btc.p2sh(btc.hash160(POOLK)), btc.p2pkh(btc.hash160(POOLK))])} for j in range(nout)]
            txs.append({'ver': 1, 'ins': [{'txid': r0.randbytes(32), 'idx': k, 'sig': r0.randbytes(20), 'seq': 0xffffffff}], 'outs': outs, 'lock': k})
        if h == nblk - 1:
            # thousands of outputs the evaluator complains about (witness v0 programs of illegal length): the volume of log
            # records is no input of any figure either
            txs.append({'ver': 1, 'ins': [{'txid': r0.randbytes(32), 'idx': 0, 'sig': b'', 'seq': 0}],
                        'outs': [{'val': j, 'spk': b'\x00\x05' + r0.randbytes(5)} for j in range(3000)], 'lock': 0})
        return txs
    return chains.std_chain(nblk, coin, txs_fn=txs_fn)


def digest_dir(path):
    out = {}
    for f in sorted(os.listdir(path)):
        p = os.path.join(path, f)
        if os.path.isfile(p) and (f.startswith('blk') or f == 'xor.dat'):
            with open(p, 'rb') as fh:
                out[f] = hashlib.sha256(fh.read()).hexdigest()
    return out


def index_dump(path):
    rc, outs, err = run.run_driver('index-dump', [os.path.join(path, 'index')])
    return [x for x in outs if isinstance(x, str)]


def observable(cb, r):
    if cb == 'csvdump':
        return r.files
    if cb in ('unspentcsvdump', 'balances'):
        return {k: (v.splitlines()[:1], sorted(v.splitlines()[1:])) for k, v in r.files.items()}
    if cb == 'opreturn':
        return chains.strip_log(r.out)
    s = chains.parse_stats(r.stdout)
    return s


def main(ck, tier, w):
    quick = tier == 'quick'
    seed = run.seed()
    res = run.tlc('Par', 'Par_q' if quick else 'Par_t', workers=8, timeout=1500)
    ck.add_tlc(res, 'Par')
    ck.require_actions(res, ['StartTx', 'EvalOut', 'FinishTx', 'Assemble'], 'Par')
    dres = run.tlc('DumpDir', 'DumpDir', workers=2, timeout=300)
    ck.add_tlc(dres, 'DumpDir')
    ck.cov['rule'] = ('every interleaving of the nested collects in Par.tla (TLC); real runs: callbacks x thread counts x jitter seeds x '
                      'reruns; non-trivial = run in which the logged evaluation order differs from the input order')

    # ---- determinism across thread counts / jitter / repetition ---------------------------------
    r0 = random.Random('%d-c13' % seed)
    coin = 'bitcoin'
    blocks = big_chain(r0, coin)
    base = datadir.simple_dir(w.sub('dd'), blocks, coin).write(xor_key=bytes.fromhex('0102030405060708'))
    before = digest_dir(base)
    idx_before = index_dump(base)
    exp_csv, _ = ref.csv_expected(list(enumerate(blocks)), coin)
    # the coins with their own script evaluator as well
    fcoin = ['litecoin', 'dogecoin', 'namecoin'][seed % 3]
    fblocks = big_chain(r0, fcoin)
    fbase = datadir.simple_dir(w.sub('dd'), fblocks, fcoin).write()
    fexp_csv, _ = ref.csv_expected(list(enumerate(fblocks)), fcoin)
    bases = {coin: (base, blocks, exp_csv), fcoin: (fbase, fblocks, fexp_csv)}
    cbs = ['csvdump', 'unspentcsvdump', 'balances', 'simplestats', 'opreturn']
    jobs = []
    for cb in cbs:
        for t in (THREADS if not quick else [1, 2, 8, 64, 0, 'pin']):
            for rep in range(1 if quick else 3):
                jobs.append((cb, t, rep, r0.randrange(1 << 30) if rep or t != 1 else None, coin))
    for cb in cbs[:3]:
        for t in (THREADS if not quick else [1, 3, 16]):
            for rep in range(1 if quick else 2):
                jobs.append((cb, t, rep, r0.randrange(1 << 30) if rep or t != 1 else None, fcoin))

    def one(j):
        cb, t, rep, jit, cn = j
        dd = w.sub('cl')
        shutil.copytree(bases[cn][0], dd)
        env = {'RBP_VERIF_JITTER': str(jit)} if jit is not None else None
        r = run.run_parser(dd, cb, dump=w.mk('out') if cb in ('csvdump', 'unspentcsvdump', 'balances') else None, threads=None if t == 'pin' else t, pin=(t == 'pin'),
                           env=env, timeout=180, coin=cn)
        shutil.rmtree(dd, ignore_errors=True)
        return j, r
    ran = chains.pmap(one, jobs)
    ref_obs = {}
    for j, r in ran:
        cb = j[0]
        ck.evals()
        if r.rc != 0:
            ck.violation('%s with %s threads fails (exit %d): %s' % (cb, j[1], r.rc, r.stderr[-300:]), {'run': j, 'observed': r.brief(), 'tags': []})
            continue
        o = observable(cb, r)
        key = (cb, j[4])
        if cb == 'csvdump':
            # every run against the reference rendering (a result that is the same wrong one in every run is no better)
            for f, data in bases[j[4]][2].items():
                if r.files.get('%s-0-%d.csv' % (f, len(bases[j[4]][1]) - 1)) != data:
                    ck.violation('%s csvdump %s with %s threads differs from the reference rendering' % (j[4], f, j[1]), {'run': j, 'observed': r.brief(), 'tags': []})
                    break
        if cb == 'simplestats':
            from checks import c15
            sp = c15.compare(o, c15.expected_from_ref(list(enumerate(bases[j[4]][1])), j[4]))
            if sp:
                ck.violation('%s simplestats with %s threads: %s' % (j[4], j[1], '; '.join(sp[:3])), {'run': j, 'observed': r.brief(), 'tags': []})
        if key not in ref_obs:
            ref_obs[key] = (o, j)
        elif o != ref_obs[key][0]:
            ck.violation('%s %s output with RAYON_NUM_THREADS=%s jitter=%s differs from the run with %s threads' % (j[4], cb, j[1], j[3], ref_obs[key][1][1]),
                         {'run': j, 'baseline_run': ref_obs[key][1], 'observed': r.brief(), 'tags': []})

    # ---- the averaging routine on long lists (a chain of 100 000+ blocks), bit for bit: the same double for every pool size and
    # every repetition, and the correctly rounded quotient of the exact sum
    rm = random.Random('%d-c13-mean' % seed)
    lists = [[rm.randrange(2 ** 32) for _ in range(n)] for n in ((98305, 131073) if quick else (98305, 131073, 262145, 300001))]
    lists += [[450] * 49152 + [451] * 49153, [7] * 100001 + [8] * 100000]          # means on decimal ties
    lines = [' '.join(map(str, x)) for x in lists]
    want = [repr(sum(x) / len(x)) for x in lists]
    for th in (1, 2, 3, 16, 64):
        for rep in range(1 if quick else 3):
            rc, outs, err = run.run_driver('get-mean', lines, env={'RAYON_NUM_THREADS': str(th)})
            for k, (o, wv) in enumerate(zip(outs, want)):
                ck.evals()
                got = repr(float(o['bits'])) if isinstance(o, dict) and 'bits' in o else str(o)
                if got != wv:
                    ck.violation('mean of %d values with %d threads: %s, the correctly rounded exact mean is %s' % (len(lists[k]), th, got, wv),
                                 {'threads': th, 'values': len(lists[k]), 'observed': got, 'tags': []})
    ck.distinct(('mean-bits', len(lists)))

    # ---- the very first parallel evaluation of a process (anything set up lazily on first use is set up while other workers already
    # evaluate): many short runs over a chain whose first block holds dozens of outputs of every template, full pool; each run
    # against the reference
    rf = random.Random('%d-c13-first' % seed)
    kf = b'\x02' + rf.randbytes(32)
    first_outs = [{'val': 10 + i, 'spk': [btc.p2sh(rf.randbytes(20)), btc.p2pk(kf), b'\x6a' + btc.push(b'n%d' % i), btc.p2pkh(rf.randbytes(20)),
                                          b'\x52' + btc.push(kf) * 3 + b'\x53\xae'][i % 5]} for i in range(40)]
    fcb = [datadir.mk_block(b'\0' * 32, [btc.coinbase(0, None, outs=first_outs[:2])] + [
        {'ver': 1, 'ins': [{'txid': rf.randbytes(32), 'idx': 0, 'sig': b'', 'seq': 0}], 'outs': first_outs[2 + 2 * k:4 + 2 * k], 'lock': k} for k in range(19)], t=1300000000, nonce=0)]
    for fc in ((fcoin, 'bitcoin') if quick else (fcoin, 'bitcoin', 'litecoin', 'namecoin')):
        fdir = datadir.simple_dir(w.sub('dd'), fcb, fc).write(plain=True)
        fexp, _ = ref.csv_expected([(0, fcb[0])], fc)

        def frun(i):
            cl = w.sub('cl')
            shutil.copytree(fdir, cl)
            r = run.run_parser(cl, 'csvdump', dump=w.mk('out'), coin=fc, threads=[16, 64, 8][i % 3], verbose=0)
            shutil.rmtree(cl, ignore_errors=True)
            return r
        rs = chains.pmap(frun, range(200 if quick else 800), 6)
        ck.evals(len(rs))
        ck.distinct(('first-use', fc))
        wrong = [r for r in rs if r.rc != 0 or r.files.get('tx_out-0-0.csv') != fexp['tx_out']]
        if wrong:
            ck.violation('%s: %d of %d short runs (one block, 40 outputs of every template, full pool) differ from the reference' % (fc, len(wrong), len(rs)),
                         {'coin': fc, 'observed': wrong[0].brief(), 'tags': []})

    # ---- T: evaluation orders really observed, validated against Par.tla ---------------------------
    NTX, NOUT = 12, 5
    txs = [{'ver': 1, 'ins': [{'txid': b'\0' * 32 if i == 1 else bytes([i]) * 32, 'idx': 0xffffffff if i == 1 else 0, 'sig': b'\x01\x01', 'seq': 0xffffffff}],
            'outs': [{'val': 1000 * i + j, 'spk': btc.p2pkh(bytes([i, j]) * 10)} for j in range(1, NOUT + 1)], 'lock': i} for i in range(1, NTX + 1)]
    one_block = [datadir.mk_block(b'\0' * 32, txs)]
    pd = datadir.simple_dir(w.sub('dd'), one_block, coin).write()
    exp1, _ = ref.csv_expected([(0, one_block[0])], coin)
    tjobs = [(t, s) for t in ([2, 8, 64] if quick else [x for x in THREADS if isinstance(x, int) and x > 0]) for s in range(3 if quick else 10)]

    def tone(j):
        t, s = j
        dd = w.sub('cl')
        shutil.copytree(pd, dd)
        tr = w.sub('trace')
        r = run.run_parser(dd, 'csvdump', dump=w.mk('out'), threads=t, trace=tr,
                           env={'RBP_VERIF_EVAL': '1', 'RBP_VERIF_JITTER': str(seed * 1000 + s * 17 + t)},
                           skip='tmp_create,idx_rec,idx_keep,idx_done,files,on_start,lookup,fetched,verify,rename,renamed,spend,create,deliver,on_complete,completed,exit')
        shutil.rmtree(dd, ignore_errors=True)
        return j, r, tr
    tran = chains.pmap(tone, tjobs, 6)
    workers = sorted({e['tid'] for _, r, _ in tran for e in r.events if e['ev'] == 'eval'})
    # Workers constant of the trace config: thread indices seen
    cfgp = os.path.join(run.SPEC, 'Trace_Par_run%d.cfg' % os.getpid())
    with open(os.path.join(run.SPEC, 'Trace_Par.cfg')) as f:
        cfg = f.read().replace('Workers = {0}', 'Workers = {%s}' % ', '.join(str(x + 1) for x in sorted(set(workers) | {-1})))
    with open(cfgp, 'w') as f:
        f.write(cfg)
    try:
        verdicts = [tracecheck.validate(tr, 'Trace_Par', os.path.basename(cfgp)[:-4]) for _, _, tr in tran]
    finally:
        os.unlink(cfgp)
    orders = set()
    for (j, r, tr), v in zip(tran, verdicts):
        ck.evals()
        ck.traces()
        order = tuple(e['id'] for e in r.events if e['ev'] == 'eval' and e['kind'] == 'tx')
        orders.add(order)
        if list(order) != sorted(order):
            ck.distinct(order)
        probs = []
        if r.rc != 0:
            probs.append('exit %d' % r.rc)
        elif r.files.get('tx_out-0-0.csv') != exp1['tx_out'] or r.files.get('transactions-0-0.csv') != exp1['transactions']:
            probs.append('rows are not in input order although evaluated in the order %s' % (order,))
        if not v['accepted']:
            probs.append('evaluation trace rejected by Par.tla: %s at %s %s' % (v['reason'], v['rejected_at'], v['event'] or ''))
        if probs:
            ck.violation('; '.join(probs), {'threads': j[0], 'jitter_seed': j[1], 'evaluation_order': order, 'observed': r.brief(), 'tags': []})
    ck.cov['distinct_evaluation_orders_observed'] = len(orders)
    ck.cov['worker_threads_observed'] = len(workers)
    ck.sample({'evaluation_orders_observed': [list(o) for o in list(orders)[:3]], 'threads_seen': workers[:20]})

    # ---- the wall clock is not an input: block timestamps around and beyond "now" change nothing, with or without --verify
    import time as _time
    now = int(_time.time())
    stamps = [now - 3600, now + 3600, now + 7200 + 5, now + 3 * 3600, 2 ** 32 - 1, 1]
    ghdr, gtxs = btc.genesis_block(coin)
    tblocks = [{'hdr': ghdr, 'hash': btc.sha256d(ghdr), 'txs': gtxs, 'raw': btc.ser_block(ghdr, gtxs)}]
    for h, t in enumerate(stamps, 1):
        tblocks.append(datadir.mk_block(tblocks[-1]['hash'], chains.std_txs(h, coin), t=t, nonce=h))
    tdir = datadir.simple_dir(w.sub('dd'), tblocks, coin).write()
    plain = run.run_parser(tdir, 'csvdump', dump=w.mk('out'))
    verified = run.run_parser(tdir, 'csvdump', dump=w.mk('out'), verify=True)
    ck.evals(2)
    ck.distinct(('clock', now // 3600))
    if plain.rc != 0 or verified.rc != 0 or plain.files != verified.files:
        ck.violation('a consistent chain with block timestamps around the current time gives exit %d / %d with and without --verify (the '
                     'result depends on the clock): %s' % (plain.rc, verified.rc, verified.stderr[-200:]),
                     {'timestamps': stamps, 'now': now, 'observed': verified.brief(), 'tags': []})

    # ---- an index that does not determine the tip (several usable tips of equal height and validity): whatever chain is
    # chosen, it must be the same one in every run
    from checks import c04
    for ntips in (2, 4):
        recs = [{'id': 0, 'h': 0, 'prev': -1, 'data': True, 'valid': 5, 'failed': False}, {'id': 1, 'h': 1, 'prev': 0, 'data': True, 'valid': 5, 'failed': False}]
        recs += [{'id': 2 + k, 'h': 2, 'prev': 1, 'data': True, 'valid': 3, 'failed': False} for k in range(ntips)]
        td, tblocks = c04.build_index(w, {'recs': recs, 'tip': 2, 'active': [0, 1, 2]}, 0)
        outs = []

        def rerun(i):
            dd = w.sub('cl')
            shutil.copytree(td.path, dd)
            r = run.run_parser(dd, 'csvdump', dump=w.mk('out'), threads=[1, 4, 16][i % 3])
            shutil.rmtree(dd, ignore_errors=True)
            return r
        rs = chains.pmap(rerun, range(12 if quick else 40), 6)
        ck.evals(len(rs))
        ck.distinct(('tied-tips', ntips))
        variants = {tuple(sorted((k, v) for k, v in r.files.items())) for r in rs if r.rc == 0}
        if any(r.rc != 0 for r in rs) or len(variants) != 1:
            ck.violation('%d runs over one data directory whose index has %d equally good tips gave %d different results' % (len(rs), ntips, len(variants)),
                         {'records': recs, 'distinct_outputs': len(variants), 'exit_codes': sorted({r.rc for r in rs}), 'tags': []})

    # ---- sums beyond the u64 range: whatever the parser does with them (abort, wrap), it does the same in every run ----
    addr = btc.p2pkh(b'\x11' * 20)
    ovals = [2 ** 63 + 11, 2 ** 63 + 22, 7, 2 ** 64 - 1, 5]
    oblocks = chains.std_chain(len(ovals), coin, txs_fn=lambda h, c: [btc.coinbase(h, None, outs=[{'val': ovals[h], 'spk': addr}, {'val': 50 * 10 ** 8, 'spk': btc.p2pkh(b'\x22' * 20)}])])
    od = datadir.simple_dir(w.sub('dd'), oblocks, coin).write()
    # (arithmetic beyond u64 is outside the domain of C08 and differs between build profiles - abort vs wrap -, so the profile is
    # fixed per group of runs)
    for cb, end, rel in (('balances', 1, False), ('balances', 2, True), ('balances', None, False), ('balances', None, True), ('unspentcsvdump', None, True)):
        def orun(i):
            dd = w.sub('cl')
            shutil.copytree(od, dd)
            r = run.run_parser(dd, cb, dump=w.mk('out'), end=end, threads=[1, 4, 16][i % 3], release=rel)
            shutil.rmtree(dd, ignore_errors=True)
            return r
        rs = chains.pmap(orun, range(8 if quick else 40), 5)
        ck.evals(len(rs))
        ck.distinct(('overflow', cb, end, rel))
        variants = {(r.rc, tuple(sorted((k, tuple(sorted(v.splitlines()))) for k, v in r.files.items()))) for r in rs}
        if len(variants) != 1:
            ck.violation('%d runs of %s over one data directory in which the outputs of one address add up to more than 2^64 gave %d different results'
                         % (len(rs), cb, len(variants)), {'values': ovals[:(end + 1) if end is not None else None], 'callback': cb,
                                                         'results': [[v[0], [list(x[1])[:4] for x in v[1]]] for v in variants], 'tags': []})

    # ---- dump folder pre-states and repeated runs on one data directory ------------------------------
    blocks2 = chains.std_chain(6, coin)
    dd = datadir.simple_dir(w.sub('dd'), blocks2, coin).write()
    b0 = digest_dir(dd)
    i0 = index_dump(dd)
    for cb, names in (('csvdump', ['blocks', 'transactions', 'tx_in', 'tx_out']), ('unspentcsvdump', ['unspent']), ('balances', ['balances'])):
        clean = run.run_parser(dd, cb, dump=w.mk('out'))
        for pre in ('stale_tmp', 'old_results', 'other_names', 'all'):
            dump = w.mk('out')
            junk = {}
            if pre in ('stale_tmp', 'all'):
                for n in names + ['unspent', 'balances', 'blocks']:
                    junk['%s.csv.tmp' % n] = b'stale garbage from a crashed run\n' * 50
            if pre in ('old_results', 'all'):
                for n in names:
                    junk['%s-0-5.csv' % n] = b'older result that must be replaced\n' * 100
            if pre in ('other_names', 'all'):
                junk['blocks-0-99.csv'] = b'result of another range\n'
                junk['notes.txt'] = b'unrelated\n'
            for n, data in junk.items():
                with open(os.path.join(dump, n), 'wb') as f:
                    f.write(data)
            r = run.run_parser(dd, cb, dump=dump)
            ck.evals()
            ck.distinct(('pre', cb, pre))
            probs = []
            if r.rc != 0:
                probs.append('exit %d: %s' % (r.rc, r.stderr[-200:]))
            else:
                for n, data in clean.files.items():
                    if observable(cb, r).get(n) != observable(cb, clean).get(n):
                        probs.append('%s differs from the run into an empty folder' % n)
                for n, data in junk.items():
                    mine = n in clean.files or n in ['%s.csv.tmp' % x for x in names]
                    if not mine and r.files.get(n) != data:
                        probs.append('unrelated file %s was modified or removed' % n)
                if any(n.endswith('.tmp') and n[:-8] in names for n in r.listing):
                    probs.append('a *.tmp file of this callback remains after exit 0: %s' % r.listing)
            if probs:
                ck.violation('%s with dump folder pre-state %s: %s' % (cb, pre, '; '.join(probs)), {'callback': cb, 'pre_state': sorted(junk), 'observed': r.brief(), 'tags': []})
        ck.evals()
        if digest_dir(dd) != b0:
            ck.violation('blk*.dat / xor.dat changed after running %s' % cb, {'before': b0, 'after': digest_dir(dd), 'tags': []})
        if index_dump(dd) != i0:
            ck.violation('the key/value content of the block index changed after running %s' % cb, {'tags': []})
    ck.evals()
    if digest_dir(base) != before or index_dump(base) != idx_before:
        ck.violation('input files of the shared data directory changed', {'tags': []})
    ck.assumptions += ['the real schedule space is sampled (thread counts, jitter hook, contention) and counted, not enumerated; all '
                       'schedules are enumerated only in Par.tla', 'the order of the per-type section of simplestats (HashMap order) is not a figure']
