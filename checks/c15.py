"""C15 - every simplestats figure equals its definition recomputed over the processed range.

M: Stats.tla (TLC: every chain of blocks over a menu of representative transactions x sizes x timestamps x reward eras; the
   accumulators equal the declarative StatsOf(prefix) after every block; first-on-ties maxima; per-type counts / first seen)
R: every complete chain of the model -> real chain (heights around 210000/420000, sizes realised by witness padding,
   timestamps in units of 1.4e9 s) -> report parsed and compared figure by figure (means within the 2-decimal rounding);
   random chains with sums beyond 2^32 (timestamp gaps, many big blocks) and the get_mean driver on u32 lists
"""
import json
import random
import re
from fractions import Fraction

from lib import btc, chains, datadir, ref, run

U = 1250000000          # value unit: 12.5 coins -> base reward 4, 2, 1 units
G = 1400000000          # time unit
BS = 3000               # block size unit (bytes)
TS = 400                # stripped tx size unit (bytes)
LABEL = {'P2PKH': 'Pay2PublicKeyHash', 'P2PK': 'Pay2PublicKey', 'P2SH': 'Pay2ScriptHash', 'OpReturn': 'OpReturn'}


def h0_for(eras):
    """first height such that consecutive heights fall into the given eras; None if impossible"""
    for h0 in (5, 209999, 209998, 210000, 419999, 419998, 420000):
        if [min((h0 + i) // 210000, 2) for i in range(len(eras))] == eras:
            return h0
    return None


def spk(typ, rng):
    if typ == 'P2PKH':
        return btc.p2pkh(rng.randbytes(20))
    if typ == 'P2PK':
        return btc.p2pk(b'\x02' + rng.randbytes(32))
    if typ == 'P2SH':
        return btc.p2sh(rng.randbytes(20))
    return b'\x6a' + btc.push(b'stat' + rng.randbytes(4).hex().encode())


def pad_to(build, target):
    """build(padlen) -> bytes; find padlen with len(build(padlen)) == target"""
    n = target - len(build(0))
    for _ in range(4):
        cur = len(build(max(n, 0)))
        if cur == target:
            return max(n, 0)
        n += target - cur
    raise RuntimeError('cannot pad to %d' % target)


def concretise(chain, rng):
    eras = [b['era'] for b in chain]
    h0 = h0_for(eras)
    if h0 is None:
        return None
    blocks, prev = [], b'\0' * 32
    for bi, b in enumerate(chain):
        txs = []
        for ki, t in enumerate(b['txs']):
            if t['cb']:
                ins = [{'txid': b'\0' * 32, 'idx': 0xffffffff, 'sig': b'', 'seq': 0xffffffff}]
            else:
                ins = [{'txid': rng.randbytes(32), 'idx': rng.randrange(4), 'sig': b'', 'seq': 0xfffffffe} for _ in range(t['nin'])]
                if t['nin'] >= 2 and rng.random() < 0.6:
                    # a null outpoint as FIRST of several inputs does not make a coinbase
                    ins[0] = {'txid': b'\0' * 32, 'idx': 0xffffffff, 'sig': b'', 'seq': 0xffffffff}
            outs = [{'val': o['val'] * U, 'spk': spk(o['typ'], rng)} for o in t['outs']]
            tx = {'ver': 1, 'ins': ins, 'outs': outs, 'lock': bi * 10 + ki}

            def build(p, tx=tx):
                tx['ins'][0]['sig'] = b'\x51' * p
                return btc.ser_tx(tx, False)
            pad_to(build, TS * t['size'])
            txs.append(tx)
        # block size class realised by witness bytes on the first input (not part of the stripped size / txid)
        def bbuild(p, txs=txs):
            txs[0]['ins'][0]['wit'] = [b'\x00' * p]
            txs[0]['segwit'] = True
            return btc.ser_block(b'\0' * 80, txs)
        need = BS * b['size'] + (BS * 2 if sum(TS * t['size'] for t in b['txs']) + 200 > BS * b['size'] else 0)
        pad_to(bbuild, need)
        blk = datadir.mk_block(prev, txs, t=b['time'] * G, nonce=bi)
        blk['size_units'] = need
        blocks.append(blk)
        prev = blk['hash']
    return h0, blocks


def close(printed, exact):
    if printed in ('NaN', 'inf'):
        return exact is None
    if exact is None:
        return False
    # the printed figure is the exact value rounded to two decimals (either way on an exact tie); 1e-12 covers double arithmetic
    return abs(Fraction(printed) - exact) <= Fraction(5, 1000) + (abs(exact) + 1) / 10 ** 12


def compare(s, e):
    """s: parsed report; e: expected dict with exact values -> problems"""
    probs = []
    for k in ('blocks', 'txs', 'ins', 'outs', 'fees', 'volume', 'big_value', 'big_size'):
        if s.get(k) != e[k]:
            probs.append('%s: report says %s, recomputation says %s' % (k, s.get(k), e[k]))
    for k in ('avg_size_kib', 'avg_gap_min', 'avg_txs', 'avg_ins', 'avg_outs', 'avg_value'):
        if k not in s or not close(s[k], e[k]):
            probs.append('%s: report says %s, exact value is %s' % (k, s.get(k), float(e[k]) if e[k] is not None else None))
    if {k: v[0] for k, v in s.get('types', {}).items()} != {k: v[0] for k, v in e['types'].items()}:
        probs.append('type counts: report %s, recomputation %s' % ({k: v[0] for k, v in s.get('types', {}).items()}, {k: v[0] for k, v in e['types'].items()}))
    else:
        for t, (n, share, fh, ftx) in s['types'].items():
            en, eshare, efh, eftx = e['types'][t]
            if (fh, ftx) != (efh, eftx):
                probs.append('first %s: report block #%d %s, recomputation #%d %s' % (t, fh, ftx[:16], efh, eftx[:16]))
            if not close(share, eshare):
                probs.append('share of %s: report %s, exact %s' % (t, share, float(eshare)))
    return probs


def expected_from_ref(chain, coin):
    """independent recomputation from the concrete blocks (lib/ref.py)"""
    st = ref.stats_expected(chain, coin)
    e = {'blocks': st['blocks'], 'txs': st['txs'], 'ins': st['ins'], 'outs': st['outs'], 'fees': st['fees'], 'volume': st['volume'],
         'big_value': st['big_value'], 'big_size': st['big_size']}
    e['avg_size_kib'] = ref.mean(st['sizes']) / 1024
    e['avg_gap_min'] = ref.mean(st['gaps']) / 60
    e['avg_txs'] = Fraction(st['txs'], st['blocks']) if st['blocks'] else None
    e['avg_ins'] = Fraction(st['ins'], st['txs']) if st['txs'] else None
    e['avg_outs'] = Fraction(st['outs'], st['txs']) if st['txs'] else None
    e['avg_value'] = Fraction(st['volume'], st['outs']) / 10 ** 8 if st['outs'] else None
    e['types'] = {t: (n, Fraction(n * 100, st['outs']), st['first'][t][0], st['first'][t][1]) for t, n in st['types'].items()}
    return e


def expected_from_spec(rp, h0, blocks):
    """the specification's figures (in units) mapped through the concretisation"""
    st = rp['stats']
    txid = lambda b, k: btc.hexrev(btc.txid(blocks[b - 1]['txs'][k - 1]))
    e = {'blocks': st['blocks'], 'txs': st['txs'], 'ins': st['ins'], 'outs': st['outs'], 'fees': st['fee'] * U, 'volume': st['volume'] * U}
    e['big_value'] = (st['bigVal']['v'] * U, h0 + st['bigVal']['b'] - 1, txid(st['bigVal']['b'], st['bigVal']['k'])) if st['bigVal']['v'] else (0, 0, '0' * 64)
    e['big_size'] = (st['bigSize']['v'] * TS, h0 + st['bigSize']['b'] - 1, txid(st['bigSize']['b'], st['bigSize']['k']))
    sizes = [b['size_units'] for b in blocks]
    e['avg_size_kib'] = ref.mean(sizes) / 1024
    e['avg_gap_min'] = ref.mean([g * G for g in st['gaps']]) / 60
    e['avg_txs'] = Fraction(st['txs'], st['blocks'])
    e['avg_ins'] = Fraction(st['ins'], st['txs'])
    e['avg_outs'] = Fraction(st['outs'], st['txs'])
    e['avg_value'] = Fraction(st['volume'] * U, st['outs']) / 10 ** 8 if st['outs'] else None
    e['types'] = {LABEL[t['t']]: (t['n'], Fraction(t['n'] * 100, st['outs']), h0 + t['b'] - 1, txid(t['b'], t['k'])) for t in st['types']}
    return e


def write_dir(w, blocks, h0, coin='bitcoin'):
    d = datadir.DataDir(w.sub('dd'), coin)
    for i, b in enumerate(blocks):
        off = d.place(0, b['raw'])
        d.record(b['hdr'], h0 + i, datadir.ACTIVE, len(b['txs']), 0, off)
    d.core_extras()
    d.write()
    return d


def main(ck, tier, w):
    quick = tier == 'quick'
    seed = run.seed()
    cfg = 'MC_Stats_q' if quick else 'MC_Stats_t'
    res = run.tlc('MC_Stats', cfg, workers=12, timeout=3000, heap='16g')
    ck.add_tlc(res, cfg)
    ck.require_actions(res, ['MAccBlock', 'MAccTx', 'MAccTime'], cfg)
    reps = res.replay
    rng = random.Random(seed)
    rng.shuffle(reps)
    reps = reps[:1200 if quick else 15000]
    # three-block chains of single-transaction blocks: a block between two others (e.g. the one at the halving height) with and
    # without a coinbase
    res3 = run.tlc('MC_Stats', 'MC_Stats_3', workers=12, timeout=3000, heap='16g')
    ck.add_tlc(res3, 'MC_Stats_3')
    reps3 = res3.replay
    rng.shuffle(reps3)
    reps += reps3[:500 if quick else 17000]
    ck.cov['complete_chains_in_model'] = len(res.replay) + len(res3.replay)
    ck.cov['rule'] = ('TLC: accumulators = declarative figures after every block over all chains of the model; %d complete chains replayed on '
                      'the real binary; random chains with sums beyond 2^32; non-trivial = chain with a tie for a maximum, a clamped '
                      '(negative) time gap, or a coinbase at/below the reward') % len(reps)
    skipped = [0]

    def one(item):
        i, rp = item
        r0 = random.Random('%d-c15-%d' % (seed, i))
        c = concretise(rp['chain'], r0)
        if c is None:
            return rp, None
        h0, blocks = c
        d = write_dir(w, blocks, h0)
        if i % 4 == 3 and len(blocks) >= 3:
            # a proper sub-range (the CLI wants start < end): the figures are those of the range only (direct recomputation)
            lo = r0.choice([0, 1])
            hi = len(blocks) - 2 if lo == 0 else len(blocks) - 1
            r = run.run_parser(d.path, 'simplestats', start=(h0 + lo) or (0 if h0 == 0 and lo == 0 else None), end=h0 + hi if hi < len(blocks) - 1 else None)
            if r.rc != 0:
                return rp, (['exit status %d: %s' % (r.rc, r.stderr[-300:])], r, h0)
            for b in blocks:
                b['size'] = len(b['raw'])
            sub = [(h0 + k, b) for k, b in enumerate(blocks) if lo <= k <= hi]
            return rp, (['(range %d..%d) ' % (lo, hi) + x for x in compare(chains.parse_stats(r.stdout), expected_from_ref(sub, 'bitcoin'))], r, h0)
        r = run.run_parser(d.path, 'simplestats', start=h0 or None)
        if r.rc != 0:
            return rp, (['exit status %d: %s' % (r.rc, r.stderr[-300:])], r, h0)
        s = chains.parse_stats(r.stdout)
        e = expected_from_spec(rp, h0, blocks)
        probs = compare(s, e)
        # the two oracles (specification o encoding, and the direct recomputation) must agree as well
        e2 = expected_from_ref([(h0 + k, b) for k, b in enumerate(blocks)], 'bitcoin')
        for b in blocks:
            b['size'] = len(b['raw'])
        if not probs and compare(s, e2):
            probs = ['(oracle disagreement) ' + x for x in compare(s, e2)]
        return rp, (probs, r, h0)
    for rp, out in chains.pmap(one, list(enumerate(reps))):
        if out is None:
            skipped[0] += 1
            continue
        probs, r, h0 = out
        ck.evals()
        ck.traces()
        ch = rp['chain']
        vals = [sum(o['val'] for o in t['outs']) for b in ch for t in b['txs']]
        if (vals and vals.count(max(vals)) > 1) or any(ch[i + 1]['time'] < ch[i]['time'] for i in range(len(ch) - 1)) or \
                any(t['cb'] and t['outs'] and t['outs'][0]['val'] <= 4 for b in ch for t in b['txs']):
            ck.distinct(json.dumps(ch, sort_keys=True))
        ck.sample({'chain': ch, 'first_height': h0, 'expected_units': rp['stats']}, limit=3)
        if probs:
            ck.violation('; '.join(probs[:4]), {'chain': ch, 'first_height': h0, 'expected_units': rp['stats'], 'observed': r.brief(), 'tags': []})
    ck.cov['skipped_unrealisable_era_sequences'] = skipped[0]

    # sums beyond 2^32: timestamp gaps, many blocks; every script type via random chains
    def big(i):
        r0 = random.Random('%d-c15big-%d' % (seed, i))
        n = r0.choice([4, 6, 9])
        times = [r0.choice([1, 2 ** 32 - 1, 2 ** 31, 5, 3000000000, 0, 0]) for _ in range(n)]
        coin = r0.choice(['bitcoin', 'bitcoin', 'litecoin', 'dogecoin'])
        blocks, prev = [], b'\0' * 32
        for h in range(n):
            cbv = r0.choice([50 * 10 ** 8, 50 * 10 ** 8 + 12345, 10 ** 8, 2 ** 40])
            if i % 3 == 0 and h == n // 2:
                # one value in the upper half of the u64 range per chain (the total volume stays below 2^64)
                cbv = [2 ** 63, 2 ** 63 + 25 * 10 ** 8, 0x9000000000000000, 2 ** 64 - 2 ** 58][(i // 3) % 4]
            txs = [btc.coinbase(h, None, outs=[{'val': cbv, 'spk': spk(r0.choice(list(LABEL)), r0)}])]
            for k in range(r0.randrange(0, 4)):
                # sizes on both sides of the CompactSize boundaries, so that a size computed from field widths must get them right;
                # neighbouring transactions differ by single bytes, so that an error of 1-2 bytes changes which one is biggest
                siglen = r0.choice([r0.randrange(0, 200), 251, 252, 253, 254, 255, 252, 253])
                nout = r0.choice([r0.randrange(0, 5), r0.randrange(0, 5), 252, 253, 254])
                first = [{'txid': b'\0' * 32, 'idx': 0xffffffff, 'sig': b'', 'seq': 0}] if r0.random() < 0.2 else []
                txs.append({'ver': 1, 'ins': first + [{'txid': r0.randbytes(32), 'idx': 0, 'sig': r0.randbytes(siglen), 'seq': 0}] * r0.choice([1, 1, 2, 253]),
                            'outs': [{'val': r0.randrange(0, 2 ** 44), 'spk': r0.choice([spk(t, r0) for t in LABEL] + [b'\x51', b''])} for _ in range(nout)],
                            'lock': k})
            b = datadir.mk_block(prev, txs, t=times[h], nonce=h)
            blocks.append(b)
            prev = b['hash']
        d = write_dir(w, blocks, 0, coin)
        r = run.run_parser(d.path, 'simplestats', coin=coin)
        if r.rc != 0:
            return i, ['exit status %d: %s' % (r.rc, r.stderr[-300:])], r, times
        return i, compare(chains.parse_stats(r.stdout), expected_from_ref(list(enumerate(blocks)), coin)), r, times
    for i, probs, r, times in chains.pmap(big, range(40 if quick else 600)):
        ck.evals()
        if sum(max(0, times[k + 1] - times[k]) for k in range(len(times) - 1)) >= 2 ** 32:
            ck.distinct(('gaps>2^32', tuple(times)))
        if probs:
            ck.violation('; '.join(probs[:4]), {'timestamps': times, 'run': i, 'observed': r.brief(), 'tags': []})

    # T: accumulators after every block validated against Stats.tla's effects (Trace_Stats); quantities below 10^9, heights in
    # late reward eras so that fees are non-trivial with small values
    def tjob(i):
        r0 = random.Random('%d-c15T-%d' % (seed, i))
        era = r0.choice([24, 25, 26, 30])
        h0 = 210000 * era - r0.choice([0, 1, 2, 3, 1, 2])
        rew = (50 * 10 ** 8) >> era
        blocks, prev = [], b'\0' * 32
        n = r0.choice([3, 8, 25] if quick else [5, 40, 150])
        for k in range(n):
            txs = [btc.coinbase(h0 + k, None, outs=[{'val': r0.choice([rew, rew + 1, rew - 1, rew * 2, 0, rew + 500]), 'spk': spk(r0.choice(list(LABEL)), r0)}] +
                                [{'val': 3, 'spk': b'\x6a' + btc.push(b'x')}] * r0.randrange(0, 2))]
            # blocks without any coinbase-shaped transaction (in particular the one at the halving height): nothing in the
            # definition of the fee total depends on which blocks have one
            nocb = ((h0 + k) % 210000 == 0 and i % 2 == 0) or r0.random() < 0.15
            if nocb:
                txs = []
            for j in range(r0.randrange(1 if nocb else 0, 5)):
                first = [{'txid': b'\0' * 32, 'idx': 0xffffffff, 'sig': b'', 'seq': 0}] if r0.random() < 0.3 else []
                txs.append({'ver': 1, 'ins': first + [{'txid': r0.randbytes(32), 'idx': 0, 'sig': r0.randbytes(r0.choice([0, 10, 10, 90])), 'seq': 0}] * r0.randrange(1, 4),
                            'outs': [{'val': r0.choice([0, 7, 500, 500, 999]), 'spk': r0.choice([spk(t, r0) for t in LABEL] + [b'\x51', b'', b'\x00\x14' + r0.randbytes(20)])}
                                     for _ in range(r0.randrange(0, 4))], 'lock': j})
            b = datadir.mk_block(prev, txs, t=r0.choice([1000, 5000, 4000, 2 ** 31 - 5, 77, 77, 0]), nonce=k)
            blocks.append(b)
            prev = b['hash']
        d = write_dir(w, blocks, h0)
        tr = w.sub('trace')
        r = run.run_parser(d.path, 'simplestats', start=h0, trace=tr, skip='idx_rec,idx_keep,lookup,fetched,deliver,eval')
        return i, h0, n, r, tr
    ran = chains.pmap(tjob, range(6 if quick else 40), 8)
    from lib import tracecheck
    for (i, h0, n, r, tr), v in zip(ran, tracecheck.validate_many([x[4] for x in ran], module='Trace_Stats', batch=10)):
        ck.evals()
        ck.traces()
        ck.distinct(('T', h0, n))
        probs = []
        if r.rc != 0:
            probs.append('exit %d: %s' % (r.rc, r.stderr[-200:]))
        if not v['accepted']:
            probs.append('accumulators diverge from Stats.tla: %s at event %s %s' % (v['reason'], v['rejected_at'], v['event'] or ''))
        if probs:
            ck.violation('; '.join(probs), {'first_height': h0, 'blocks': n, 'run': i, 'observed': r.brief(), 'trace_verdict': v, 'tags': []})

    # get_mean on u32 lists whose sum exceeds 32 bits (direct witness without multi-GiB inputs)
    lists = [[2 ** 32 - 1] * 3, [2 ** 31, 2 ** 31], [2 ** 32 - 1, 1], [1000000] * 5000, [0], [7]]
    lists += [[rng.randrange(2 ** 32) for _ in range(rng.randrange(1, 40))] for _ in range(200)]
    rc, outs, err = run.run_driver('get-mean', [' '.join(map(str, x)) for x in lists])
    for lst, o in zip(lists, outs):
        ck.evals()
        exact = Fraction(sum(lst), len(lst))
        if not isinstance(o, dict) or 'mean' not in o or abs(Fraction(o['mean']) - exact) > Fraction(1, 10 ** 5) + abs(exact) / 10 ** 12:
            ck.violation('get_mean(%s...) = %s, exact mean is %s' % (lst[:4], o, float(exact)), {'list': lst[:50], 'observed': o, 'tags': []})
    # the reward schedule far out: 9th halving (where 50*(COIN>>n) and (50*COIN)>>n part ways), 33rd (reward reaches 0), 64th and
    # beyond (a 64-bit shift by >= 64), heights beyond 32 bits; three blocks around each boundary, coinbases above and below
    from lib import extremes as xt
    for H in (1889999, 6929999, 13439999, 13440000 + 209999, 20000000, 2 ** 32 + 5, 2 ** 63 + 209999):
        sb = xt.special_height_chain(H + 1, 'bitcoin', seed)
        xd = write_dir(w, sb, H)
        for rel in (False, True):
            r = run.run_parser(xd.path, 'simplestats', start=H, release=rel)
            ck.evals()
            ck.distinct(('late-era', H, rel))
            probs = ['exit status %d: %s' % (r.rc, r.stderr[-300:])] if r.rc != 0 else compare(chains.parse_stats(r.stdout), expected_from_ref([(H + k, b) for k, b in enumerate(sb)], 'bitcoin'))
            if probs:
                ck.violation('chain at heights %d..%d (%s build): %s' % (H, H + 2, 'release' if rel else 'debug', '; '.join(probs[:3])),
                             {'first_height': H, 'build': 'release' if rel else 'debug', 'observed': r.brief(), 'tags': []})
    # means a hair above / below / on a two-decimal rounding boundary (value per output, outputs per transaction, block size)
    for vals in ([12500000, 12500001], [4500000, 4500000, 4500001], [12500000, 12500000], [12499999, 12500000], [7500000, 7500001, 7500001], [500000, 500001],
                 [10 ** 8 * 3 + 500000, 10 ** 8 * 3 + 500001], [1, 0, 0]):
        tb = [datadir.mk_block(b'\0' * 32, [btc.coinbase(0, None, outs=[{'val': v, 'spk': spk('P2PKH', rng)} for v in vals])], t=1300000000, nonce=0)]
        tb.append(datadir.mk_block(tb[0]['hash'], [btc.coinbase(1, None, outs=[{'val': vals[0], 'spk': spk('P2SH', rng)}] * len(vals))] * 1, t=1300000450, nonce=1))
        td = write_dir(w, tb[:1], 0)
        r = run.run_parser(td.path, 'simplestats')
        ck.evals()
        ck.distinct(('tie', tuple(vals)))
        probs = ['exit status %d: %s' % (r.rc, r.stderr[-300:])] if r.rc != 0 else compare(chains.parse_stats(r.stdout), expected_from_ref([(0, tb[0])], 'bitcoin'))
        if probs:
            ck.violation('one block whose outputs are worth %s units: %s' % (vals, '; '.join(probs[:3])), {'values': vals, 'observed': r.brief(), 'tags': []})
    # counts beyond 16 bits (66 000 transactions in a block; 65 600 inputs, outputs, witness items; 66 000-byte scripts)
    from lib import extremes
    xb = extremes.wide_chain('%d-c15' % seed)
    xd = write_dir(w, xb, 0)
    r = run.run_parser(xd.path, 'simplestats', timeout=600)
    ck.evals()
    ck.distinct(('wide',))
    probs = ['exit status %d: %s' % (r.rc, r.stderr[-300:])] if r.rc != 0 else compare(chains.parse_stats(r.stdout), expected_from_ref(list(enumerate(xb)), 'bitcoin'))
    if probs:
        ck.violation('wide chain: ' + '; '.join(probs[:4]), {'scenario': '66 000 transactions in a block, 65 600 inputs / outputs / witness items',
                                                             'observed': r.brief(), 'tags': []})
    ck.assumptions += ['a coinbase has at least one output', 'total volume below 2^64',
                       'the order of the per-type section is not a figure (HashMap iteration order)']
