"""C05 / C06 / C16(driver part) - script type, address and OP_RETURN payload for every output script.

M: Script.tla (TLC: every item sequence up to length L, the one-item neighbourhood of every template, witness version x
   length, m-of-n shapes): Total, Deterministic (template rules mutually exclusive), AddrFromPush, TruncNoAddr,
   NopTransparent; TLC also evaluates the verdict (type, address kind, payload item) of every script of the universe
R: every script of the universe is given random payloads and fed to the real script::eval_from_bytes (driver) on every
   coin of the family; type, address string (rebuilt from the payload by the trusted encoders) and OP_RETURN text are
   compared; the Python reference classifier is validated on the same universe and then judges byte strings beyond the
   model (all leading opcodes, byte mutations of templates, random bytes up to 100 KB); end-to-end spot check through
   csvdump / unspentcsvdump / simplestats
"""
import random

from lib import wirerep, btc, chains, datadir, ref, run, scriptrep

FAMILY = {'C05': ['bitcoin', 'testnet3'], 'C06': btc.FORK_COINS}


def main(ck, tier, w, pid='C05'):
    quick = tier == 'quick'
    seed = run.seed()
    cfg = 'MC_Script_q' if quick else 'MC_Script_t'
    res = run.tlc('MC_Script', cfg, workers=8, timeout=3000, heap='16g')
    ck.add_tlc(res, cfg)
    universe = res.replay
    if len(universe) < 1000:
        raise run.ToolError('Script universe has only %d scripts' % len(universe))
    key = 'btc' if pid == 'C05' else 'fork'
    coins = FAMILY[pid]
    ck.cov['exhaustive'] = True
    ck.cov['scripts_in_universe'] = len(universe)
    ck.cov['rule'] = ('every script of the TLC universe (all item sequences <= 3 over the alphabet, template neighbourhoods, witness and '
                      'multisig shapes) with random payloads on %s; plus byte strings beyond the model judged by the validated reference; '
                      'non-trivial = script whose verdict is a template type or that is a one-item neighbour of a template') % '/'.join(coins)
    rng = random.Random('%d-%s' % (seed, pid))
    conc = []
    for u in universe:
        b, payloads = scriptrep.concretise(u['items'], rng)
        conc.append((u, b, payloads))
    nviol = [0]
    # evaluation is a function of the script alone: a second pass in another order (other neighbours on the evaluating thread)
    # must give the same answers
    perm = list(range(len(conc)))
    rng.shuffle(perm)
    for coin in coins:
        outs = scriptrep.eval_scripts(coin, [c[1] for c in conc])
        outs2 = scriptrep.eval_scripts(coin, [conc[k][1] for k in perm])
        for pos, k in enumerate(perm):
            if outs2[pos] != outs[k] and nviol[0] < 40:
                nviol[0] += 1
                ck.violation('%s script %s evaluates differently depending on what was evaluated before it: %s vs %s' % (
                    coin, conc[k][1].hex()[:100], outs[k], outs2[pos]), {'coin': coin, 'script': conc[k][1].hex(), 'first': outs[k], 'second': outs2[pos],
                                                                        'previous_script_in_second_pass': conc[perm[pos - 1]][1].hex() if pos else None, 'tags': []})
        for (u, b, payloads), got in zip(conc, outs):
            v = u[key]
            addr = scriptrep.expect_addr(v, payloads, u['items'], coin)
            data = scriptrep.expect_data(v, payloads, pid == 'C05')
            ck.evals()
            if v['pat'] not in ('NotRecognised',) or v['addr']['kind'] != 'none':
                ck.distinct((coin, str(u['items'])))
            p = scriptrep.compare(got, v['pat'], addr, data, gray=(pid == 'C05' and u['gray']))
            if p is None and pid == 'C05':
                p = scriptrep.check_address_decodes(got.get('address'), coin, b)
            # the Python reference (used as oracle in end-to-end runs) must agree with the specification too
            rp, ra, rd = ref.classify(b, coin)
            if p is None and (ra != addr or (rp != v['pat'] and not u['gray'])):
                raise run.ToolError('reference classifier disagrees with Script.tla on %s (%s): %s/%s vs %s/%s' % (b.hex()[:80], coin, rp, ra, v['pat'], addr))
            if p and nviol[0] < 40:
                nviol[0] += 1
                ck.violation('%s script %s: %s' % (coin, b.hex()[:120], p),
                             {'coin': coin, 'items': u['items'], 'script': b.hex(), 'specification': v, 'observed': got,
                              'tags': tags_for(pid, u, b, got)})
    ck.traces(len(conc) * len(coins))
    for u, b, _ in conc[:: max(1, len(conc) // 5)]:
        ck.sample({'items': u['items'], 'script_hex': b.hex()[:100], 'verdict': u[key]})

    # beyond the universe: judged by the reference classifier
    extra = scriptrep.random_scripts(rng, 3000 if quick else 60000)
    for coin in coins:
        outs = scriptrep.eval_scripts(coin, extra)
        for b, got in zip(extra, outs):
            ck.evals()
            pat, addr, payload = ref.classify(b, coin)
            data = None
            if pat == 'OpReturn' and payload is not None:
                if pid == 'C05':
                    try:
                        payload.decode('utf-8')
                        data = payload
                    except UnicodeDecodeError:
                        data = b''
                else:
                    data = payload.decode('utf-8', errors='replace').encode('utf-8')
            p = scriptrep.compare(got, pat, addr, data, gray=(pid == 'C05' and ref.multisig_gray(b)))
            if p is None and pid == 'C05':
                p = scriptrep.check_address_decodes(got.get('address'), coin, b)
            if p and nviol[0] < 40:
                nviol[0] += 1
                ck.violation('%s script %s (%d bytes): %s' % (coin, b.hex()[:100], len(b), p),
                             {'coin': coin, 'script': b.hex()[:4000], 'script_len': len(b), 'reference': [pat, addr], 'observed': got,
                              'tags': tags_for(pid, None, b, got)})

    # end to end: the same verdicts must appear in the CSV address column and in simplestats' type counts
    r0 = random.Random('%d-%s-e2e' % (seed, pid))
    for coin in (coins if not quick else sorted(set(coins[:2]) | {c for c in coins if c in wirerep.THRESH})):
        pick = r0.sample(conc, 60)
        # incl. scripts longer than 10 000 bytes: the pipeline must hand every script to the evaluator, whatever its size
        spks = [c[1] for c in pick] + [x for x in extra if 10000 <= len(x) <= 21000][:5]
        # name-operation shaped scripts as well; the scripts sit in the coinbase and in transactions of several versions
        # (2, Namecoin's name-operation version 0x7100, 0, 2^32-1): how an output is typed is a function of its script and the coin
        names = [x for x in extra if x[:1] in (b'\x51', b'\x52', b'\x53') and (b'\x6d' in x[:60])][:8]
        spks = spks + names

        def txs_fn(h, c, spks=spks):
            mine = spks[h::3] or [b'\x51']
            txs = [btc.coinbase(h, None, outs=[{'val': 10 ** 8 + i, 'spk': s} for i, s in enumerate(mine)])]
            for vi, ver in enumerate((2, 0x7100, 0, 2 ** 32 - 1)):
                txs.append({'ver': ver, 'ins': [{'txid': bytes([h, vi]) * 16, 'idx': vi, 'sig': b'', 'seq': 0xffffffff}],
                            'outs': [{'val': 1000 + i, 'spk': s} for i, s in enumerate(mine[vi::2])] or [{'val': 1, 'spk': b'\x51'}], 'lock': 0})
            return txs
        # header versions on both sides of the coin's AuxPoW activation version (with a well-formed AuxPoW section where the coin
        # has one): which evaluator and which version byte apply depends on the coin alone
        act = wirerep.THRESH.get(coin)
        vers = [1, act, act + 1] if act else [1, 2, 0x20000000]
        if r0.random() < 0.5:
            vers = vers[::-1]
        blocks, prev = [], b'\0' * 32
        for h, ver in enumerate(vers):
            aux = None
            if act and ver >= act:
                aux = btc.auxpow({'ver': 1, 'ins': [{'txid': b'\0' * 32, 'idx': 0xffffffff, 'sig': b'\x03abc', 'seq': 0xffffffff}],
                                  'outs': [{'val': 50, 'spk': btc.p2pkh(b'\x07' * 20)}], 'lock': 0}, r0.randbytes(32), [r0.randbytes(32)] * (h % 3), 0,
                                 [r0.randbytes(32)] * (h % 2), 0, btc.header(1, r0.randbytes(32), r0.randbytes(32), 5, 0x1d00ffff, 7))
            blocks.append(datadir.mk_block(prev, txs_fn(h, coin), t=1231006505 + 600 * h, ver=ver, nonce=h, aux=aux))
            prev = blocks[-1]['hash']
        d = datadir.simple_dir(w.sub('dd'), blocks, coin).write()
        r = run.run_parser(d, 'csvdump', dump=w.mk('out'), coin=coin)
        exp, _ = ref.csv_expected(list(enumerate(blocks)), coin)
        ck.evals()
        if r.rc != 0 or r.files.get('tx_out-0-2.csv') != exp['tx_out']:
            ck.violation('end-to-end tx_out address column differs from the reference on %s (exit %d)' % (coin, r.rc),
                         {'coin': coin, 'scripts': [s.hex()[:200] for s in spks], 'observed': r.brief(), 'tags': []})
        r = run.run_parser(d, 'simplestats', coin=coin)
        st = chains.parse_stats(r.stdout)
        est = ref.stats_expected(list(enumerate(blocks)), coin)
        ck.evals()
        if r.rc != 0 or {k: v[0] for k, v in st.get('types', {}).items()} != est['types']:
            ck.violation('end-to-end simplestats type counts differ on %s: %s vs %s' % (coin, {k: v[0] for k, v in st.get('types', {}).items()}, est['types']),
                         {'coin': coin, 'observed': r.brief(), 'tags': []})
        # the address column of the two UTXO dumps is the same verdict once more (it travels through the callbacks' own storage)
        utx = ref.utxo_expected(list(enumerate(blocks)), coin)
        for cb, pre, want in (('unspentcsvdump', 'unspent', ref.unspent_rows(utx)), ('balances', 'balances', ref.balances_rows(utx))):
            r = run.run_parser(d, cb, dump=w.mk('out'), coin=coin)
            rows = set(r.files.get('%s-0-2.csv' % pre, b'').decode('utf-8', 'replace').splitlines()[1:])
            ck.evals()
            if r.rc != 0 or rows != want:
                ck.violation('end-to-end %s rows differ from the reference on %s (exit %d): unexpected %s, missing %s' % (
                    cb, coin, r.rc, sorted(rows - want)[:3], sorted(want - rows)[:3]), {'coin': coin, 'observed': r.brief(), 'tags': []})
    ck.assumptions += ['Base58Check / Bech32(m) / HASH160 encoders of /verif/lib/btc.py (BIP173/350 vectors) are trusted',
                       'type label of m-of-n scripts whose pushes are not 33/65 bytes is left open (either multisig or unrecognised), '
                       'no address in both cases']


def tags_for(pid, u, b, got):
    return []
